"""C20 - on-disk netCDF access is equivalent to in-memory access (three suites; through the netCDF4 stand-in)."""
import copy, json, os, shutil, tempfile, importlib
from common import *
from gen import *
from oracle_util import *
import ops
import numpy as np
import props.c19 as c19

ID = 'C20'
N_QUICK = 600
N_THOROUGH = 6000

def nc_ok_array(a):
    """arrays a netCDF variable can hold: float / int values (str values in NETCDF4), labels int / float / str"""
    return a['dtype'] in ('f', 'i') and all(k in ('i', 'f', 'O') for k in a['axdtype']) and not any(isinstance(x, list) or x is None for l in a['labels'] for x in l) \
        and all(len(l) > 0 for l in a['labels'])        # a dimension of size 0 is an unlimited dimension in netCDF

def obs_val(r):
    D = da()
    if isinstance(r, D.DimArray):
        if r.ndim == 0:      # the on-disk route never returns a bare scalar: a 0-d array stands for it
            v = r.values[()]
            if isinstance(v, np.generic): v = v.item()
            return {'scalar': {'nan': 1} if isinstance(v, float) and v != v else v}
        return {'arr': c19.obs_array(r)}
    if isinstance(r, np.ndarray) and r.ndim == 0: r = r[()]
    if isinstance(r, np.generic): r = r.item()
    if isinstance(r, float) and r != r: return {'scalar': {'nan': 1}}
    return {'scalar': r}

def run_obs(f):
    try:
        with warnings.catch_warnings():
            warnings.simplefilter('ignore')
            with np.errstate(all='ignore'):
                return ('val', obs_val(f()))
    except Unsupported: raise
    except Exception as e:
        return ('err', type(e).__name__, str(e)[:200])

def same_obs(x, y):
    if x[0] != y[0]: return False
    if x[0] == 'err': return True        # both refuse (the classes may differ between the netCDF and the NumPy route)
    return json.dumps(x[1], sort_keys=True, default=str) == json.dumps(y[1], sort_keys=True, default=str)

def apply_get(x, spelling, form, tol, keepdims, ondisk):
    idx, kw = ops.py_form(form)
    t = ops.py_tol(tol)
    if spelling == 'getitem':
        if kw or t is not None or keepdims: raise Unsupported('getitem with kwargs')
        if isinstance(idx, tuple) and len(idx) == 0: return x[()]
        return x[idx if not (isinstance(idx, tuple) and len(idx) == 1) else idx[0]]
    if spelling in ('take', 'take_pos', 'take_lab'):
        if spelling == 'take_pos': kw['indexing'] = 'position'
        if spelling == 'take_lab': kw['indexing'] = 'label'
        if ondisk: return x.read(indices=idx, tol=t, keepdims=keepdims, **kw)
        return x.take(idx, tol=t, keepdims=keepdims, **kw)
    if spelling in ('loc', 'iloc', 'ix', 'nloc'):
        if kw or keepdims: raise Unsupported('accessor with kwargs')
        return getattr(x, spelling)[idx]
    if spelling in ('sel', 'isel'):
        if not isinstance(idx, dict) or not all(isinstance(k, str) for k in idx): raise Unsupported('sel needs names')
        return getattr(x, spelling)(**idx)
    raise Unsupported(spelling)

# =============================================================== suite 0: reading through the on-disk handle
class Read:
    @staticmethod
    def generate(rng, n, tier, stats):
        cases = []
        srcs = [importlib.import_module('props.c01'), importlib.import_module('props.c02')]
        while len(cases) < n:
            m = rng.choice(srcs)
            for c in m.generate(rng, 20, tier, new_stats()):
                if 'ops' not in c: continue
                o = c['ops'][-1]       # (a c01 case may start with a query step)
                if o[0] != 'get' or o[5] != 'label' or not nc_ok_array(c['ins'][0]): continue
                a = c['ins'][0]
                # longer list indices in scrambled order (3 or more positions, repeats): the order of the fetched rows matters
                form = o[2]
                items = form.get('tuple') or [i for _, i in form.get('dict', [])] or ([form['axis'][1]] if 'axis' in form else [])
                for it in items:
                    if isinstance(it, dict) and rng.random() < 0.5:
                        for key in ('l', 'pl'):
                            if key in it and len(it[key]) >= 1:
                                src = None
                                for d_, labs in zip(a['dims'], a['labels']):
                                    if key == 'l' and it[key][0] in labs: src = labs
                                    if key == 'pl' and len(labs) > max(abs(x) for x in it[key]): src = list(range(len(labs)))
                                if src and len(src) >= 3:
                                    new = [rng.choice(src) for _ in range(rng.randint(3, 5))]
                                    it[key] = new; stats['read_long_list'][len(new)] += 1
                stats['read_spelling'][o[1]] += 1; stats['read_ndim'][len(a['dims'])] += 1
                fmt = rng.choice(['NETCDF4', 'NETCDF4', 'NETCDF3_CLASSIC'])
                if fmt != 'NETCDF4' and 'O' in a['axdtype']: fmt = 'NETCDF4'
                via = rng.choice(['handle', 'handle', 'read_nc', 'dataset_read', 'file_read'])
                if len(a['dims']) >= 2 and all(len(l) > 0 for l in a['labels']) and rng.random() < 0.08:
                    # indices for ONE axis that is NOT the first, named by axis= (position or name), through read_nc(f, name, ...) and
                    # the dataset handle: the axis must reach the variable
                    k_ = rng.randrange(1, len(a['dims'])); labs_ = a['labels'][k_]
                    ix_ = {'s': rng.choice(labs_)} if rng.random() < 0.5 else {'l': [rng.choice(labs_) for _ in range(rng.randint(1, 2))]}
                    o = ['get', 'take', {'axis': [k_ if rng.random() < 0.5 else a['dims'][k_], ix_]}, None, False, 'label']
                    via = rng.choice(['read_nc', 'read_nc', 'dataset_read']); stats['read_axis_not_first'][via] += 1
                # the file may hold, before 'v', a variable over the same dimensions in the REVERSE order: the file's dimension order
                # then differs from v's own, and a read through the dataset (a list of names) must still index v by dimension NAME
                if isinstance(o[2], dict) and 'axis' in o[2] and rng.random() < 0.6: via = rng.choice(['read_nc', 'read_nc', 'dataset_read'])      # indices for ONE axis, named by axis=
                rev = len(a['dims']) >= 2 and all(len(l) > 0 for l in a['labels']) and rng.random() < 0.5
                if rev: stats['read_file_dims_reversed'][via] += 1
                cases.append({'arr': a, 'get': o[1:5], 'fmt': fmt, 'via': via, 'rev_first': rev})
                if len(cases) >= n: break
        return cases

    @staticmethod
    def execute(c):
        D = da()
        tmp = tempfile.mkdtemp(prefix='c20_')
        f = os.path.join(tmp, 'x.nc')
        try:
            a = mk_array(c['arr'])
            with warnings.catch_warnings():
                warnings.simplefilter('ignore')
                if c.get('rev_first'):
                    ds0 = D.Dataset(); ds0['zz_rev'] = a.transpose(); ds0['v'] = a
                    ds0.write_nc(f, mode='w', format=c['fmt'])
                else:
                    a.write_nc(f, 'v', mode='w', format=c['fmt'])
                loaded = D.read_nc(f, 'v')
            spelling, form, tol, keepdims = c['get'][0], c['get'][1], c['get'][2], c['get'][3]
            mem = run_obs(lambda: apply_get(loaded, spelling, form, tol, keepdims, False))
            h = D.open_nc(f)
            try:
                if c['via'] == 'handle' or spelling not in ('take', 'take_pos', 'take_lab'):
                    disk = run_obs(lambda: apply_get(h['v'], spelling, form, tol, keepdims, True))
                else:
                    idx, kw = ops.py_form(form); t = ops.py_tol(tol)
                    if spelling == 'take_pos': kw['indexing'] = 'position'
                    if spelling == 'take_lab': kw['indexing'] = 'label'
                    if c.get('rev_first'):
                        # through the dataset a dimension given by POSITION is a position in the file's dimension order, not in v's:
                        # dimensions are named here
                        if isinstance(idx, dict): idx = dict((loaded.dims[k_] if isinstance(k_, int) else k_, v_) for k_, v_ in idx.items())
                        if isinstance(kw.get('axis'), int): kw['axis'] = loaded.dims[kw['axis']]
                    if c['via'] == 'file_read':
                        # the WHOLE file through the same index (no names): what Dataset.take gives on the loaded dataset
                        idx_ = idx if isinstance(idx, dict) or 'axis' in kw else dict(zip(loaded.dims, idx if isinstance(idx, tuple) else (idx,)))
                        if isinstance(idx_, dict): idx_ = dict((loaded.dims[k_] if isinstance(k_, int) else k_, v_) for k_, v_ in idx_.items())
                        if isinstance(kw.get('axis'), int): kw['axis'] = loaded.dims[kw['axis']]
                        mem = run_obs(lambda: dict.__getitem__(D.read_nc(f).take(indices=idx_, tol=t, keepdims=keepdims, **kw), 'v'))
                        disk = run_obs(lambda: dict.__getitem__(D.read_nc(f, indices=idx_, tol=t, keepdims=keepdims, **kw), 'v'))
                    elif c['via'] == 'read_nc':
                        if c.get('rev_first') and (isinstance(idx, dict) or 'axis' in kw):
                            disk = run_obs(lambda: D.read_nc(f, ['v'], indices=idx, tol=t, keepdims=keepdims, **kw)['v'])      # a list of names: dataset read
                        else:
                            disk = run_obs(lambda: D.read_nc(f, 'v', indices=idx, tol=t, keepdims=keepdims, **kw))
                    else:
                        disk = run_obs(lambda: h.read(['v'], indices=idx if isinstance(idx, dict) or 'axis' in kw else dict(zip(loaded.dims, idx if isinstance(idx, tuple) else (idx,))),
                                                      tol=t, keepdims=keepdims, **kw)['v'])
            finally:
                h.close()
            c['_mem'] = mem; c['_disk'] = disk
            c['_loaded_ok'] = json.dumps(c19.obs_array(loaded), sort_keys=True, default=str) == json.dumps(c19.obs_array(a), sort_keys=True, default=str)
        finally:
            shutil.rmtree(tmp, ignore_errors=True)
        return ('val', {'t': 'pair', 'v': [mem, disk]})

    @staticmethod
    def oracle(c, res):
        if not c['_loaded_ok']: return None       # round trip: C19's subject
        if not same_obs(c['_mem'], c['_disk']):
            return 'on-disk %s via %s gives %s, the loaded array gives %s' % (c['get'][0], c['via'], json.dumps(c['_disk'], default=str)[:300], json.dumps(c['_mem'], default=str)[:300])
        return None

    HEADER = ('From DA Require Import Prelude NDArray Array PyRT.\nFrom DA.Model Require Import Value Reshape Indexing Align NcFile NcAccess.\nOpen Scope string_scope.\n')
    RUNNER = 'read_case_ok'
    SHOW = 'read_case_show'

    @staticmethod
    def coq_case(c, res):
        a = c['arr']; d = c['_disk']
        if not c['_loaded_ok']: return None
        spelling, form, tol, keepdims = c['get']
        if spelling == 'nloc': tol = 'inf'
        # the file as the model sees it: one dimension + coordinate variable per axis, and the variable v
        arr = mk_array(a); o = c19.obs_array(arr)
        dims = cq_list(['(%s, %d)' % (cq_str(x['name']), len(x['labels'])) for x in o['axes']])
        vars_ = ['(%s, {| nv_dims := [%s]; nv_kind := %s; nv_data := map label_cell %s; nv_attrs := %s |})' % (cq_str(x['name']), cq_str(x['name']), cq_kind(x['kind']), ops.cq_labs(x['labels']), cq_meta(x['attrs'])) for x in o['axes']]
        vars_.append('("v", {| nv_dims := %s; nv_kind := %s; nv_data := %s; nv_attrs := %s |})' % (cq_list([cq_str(x) for x in o['dims']]), cq_kind(o['kind']), cq_list([cq_cell(v) for v in o['flat']]), cq_meta(o['attrs'])))
        f0 = '{| nf_fmt3 := %s; nf_dims := %s; nf_unl := []; nf_vars := %s; nf_attrs := [] |}' % ('true' if c['fmt'] != 'NETCDF4' else 'false', dims, cq_list(vars_))
        if d[0] == 'err': e = 'EAnyErr'
        elif 'scalar' in d[1]: e = '(EVal (VCell %s))' % cq_cell(d[1]['scalar'])
        else:
            r = d[1]['arr']
            axs = cq_list(['(Ax %s %s %s %s [])' % (cq_str(x['name']), cq_kind(x['kind']), ops.cq_labs(x['labels']), cq_meta(x['attrs'])) for x in r['axes']])
            e = '(EVal (VArr (Arr %s %s %s %s %s)))' % (axs, cq_list(['%d' % n for n in r['shape']]), cq_kind(r['kind']), cq_list([cq_cell(v) for v in r['flat']]), cq_meta(r['attrs']))
        return '(%s, "v", %s, %s, %s, %s)' % (f0, ops.cq_form(form), ops.cq_tol(tol), 'true' if keepdims else 'false', e)
    @staticmethod
    def nontrivial(c, res): return c['_mem'][0] == 'val'

# =============================================================== suite 1: assigning through the on-disk handle; unlimited dimensions
class Write:
    @staticmethod
    def generate(rng, n, tier, stats):
        cases = []
        c03 = importlib.import_module('props.c03')
        while len(cases) < n:
            if rng.random() < 0.65:
                for c in c03.generate(rng, 20, tier, new_stats()):
                    if 'ops' not in c: continue
                    o = c['ops'][0]
                    if o[0] != 'put' or o[7] != 'label' or not nc_ok_array(c['ins'][0]) or o[5]: continue     # cast is an in-memory notion
                    if o[1] not in ('setitem', 'loc', 'iloc', 'ix'): continue
                    a = c['ins'][0]
                    if 'O' in a['axdtype'] and rng.random() < 0.5: continue
                    stats['write_kind']['assign:' + o[1]] += 1
                    as_da = rng.random() < 0.3      # the assigned value is a DimArray over the axes of the selection
                    stats['assigned_value'][('DimArray' if as_da else 'scalar / ndarray')] += 1
                    cases.append({'kind': 'assign', 'arr': a, 'put': o[1:5], 'fmt': 'NETCDF4', 'as_dimarray': as_da})
                    if len(cases) >= n: break
            else:
                # a variable over an unlimited leading dimension, grown by successive assignments beyond the end
                k = rng.choice(['i', 'f'])
                nfix = rng.randint(1, 3); fixlabs = rand_labels(rng, nfix, rng.choice(['i', 'f', 'O']), 'shuf')
                steps = []; cur = []
                pool = rand_labels(rng, 6, k, rng.choice(['inc', 'shuf']))
                single = rng.random() < 0.2      # a one-record variable: the smallest size, where a mask [True] reads like the position 1
                for _ in range(1 if single else rng.randint(1, 4)):
                    m = 1 if single else rng.randint(1, 2)
                    newlabs = pool[len(cur):len(cur) + m]
                    if not newlabs: break
                    vals = [[float(rng.randint(0, 20)) for _ in range(nfix)] for _ in newlabs]
                    steps.append({'labels': newlabs, 'values': vals, 'how': rng.choice(['slice', 'list', 'scalar']) if len(newlabs) == 1 else rng.choice(['slice', 'list'])})
                    cur += newlabs
                stats['write_kind']['unlimited'] += 1
                over = None
                if cur and rng.random() < (0.8 if single else 0.35):
                    # then an assignment INSIDE the existing range, the value being a DimArray whose own time labels are other ones:
                    # as in memory, only the values change (the axis is extended by writes beyond its end only)
                    m = rng.randint(1, min(2, len(cur))); p0 = rng.randint(0, len(cur) - m)
                    over = {'pos': p0, 'm': m, 'labels': [x + 1000 for x in cur[p0:p0 + m]], 'values': [[float(rng.randint(50, 70)) for _ in range(nfix)] for _ in range(m)],
                            'how': rng.choice(['slice', 'list', 'mask']) if len(cur) > 1 else rng.choice(['slice', 'mask', 'mask'])}
                    stats['write_kind']['unlimited+overwrite'] += 1
                strad = None
                if cur and over is None and len(pool) > len(cur) and rng.random() < 0.4:
                    # one assignment through a LIST of positions that covers existing rows and rows beyond the end, in any order:
                    # the existing rows keep their labels, each appended row gets the label supplied at its place in the list
                    n_new = min(rng.randint(1, 2), len(pool) - len(cur)); n_old = rng.randint(1, min(2, len(cur)))
                    posl = rng.sample(range(len(cur)), n_old) + list(range(len(cur), len(cur) + n_new)); rng.shuffle(posl)
                    labs = [pool[p] if p >= len(cur) else cur[p] + 1000 for p in posl]
                    strad = {'pos': posl, 'labels': labs, 'values': [[float(rng.randint(80, 99)) for _ in range(nfix)] for _ in posl]}
                    stats['write_kind']['unlimited+straddling list'] += 1
                tlast = rng.random() < 0.25
                if tlast:
                    # the unlimited dimension is the LAST one of the variable (v(x, time), legal in NETCDF4): growth by slices only
                    over = None; strad = None
                    for st_ in steps: st_['how'] = 'slice'
                    stats['write_kind']['unlimited, record dimension last'] += 1
                cases.append({'kind': 'unlimited', 'tkind': k, 'fixlabs': fixlabs, 'steps': steps, 'overwrite': over, 'straddle': strad, 'tlast': tlast, 'fmt': rng.choice(['NETCDF4', 'NETCDF3_CLASSIC']) if all(not isinstance(x, str) for x in fixlabs) else 'NETCDF4'})
        return cases[:n]

    @staticmethod
    def execute(c):
        D = da()
        tmp = tempfile.mkdtemp(prefix='c20_')
        f = os.path.join(tmp, 'x.nc')
        c['_viol'] = None
        try:
            with warnings.catch_warnings():
                warnings.simplefilter('ignore')
                if c['kind'] == 'assign':
                    a = mk_array(c['arr'])
                    a.write_nc(f, 'v', mode='w', format=c['fmt'])
                    mem = D.read_nc(f, 'v')
                    spelling, form, tol, rhs = c['put']
                    idx, kw = ops.py_form(form); v = ops.py_rhs(rhs)
                    if kw: raise Unsupported('axis= form')
                    key0 = idx if not (isinstance(idx, tuple) and len(idx) == 1) else idx[0]
                    if isinstance(idx, tuple) and len(idx) == 0: key0 = ()
                    if c.get('as_dimarray'):
                        try:
                            sel = mem[key0] if spelling == 'setitem' else getattr(mem, spelling)[key0]
                            if isinstance(sel, D.DimArray) and sel.ndim > 0:
                                v = D.DimArray(np.array(np.broadcast_to(v, sel.shape), dtype=float), axes=[ax.copy() for ax in sel.axes])
                                v.attrs['note'] = 'metadata of the assigned value'      # an assignment changes values, not the variable's metadata
                        except Exception: pass
                    def assign(x):
                        key = idx if not (isinstance(idx, tuple) and len(idx) == 1) else idx[0]
                        if isinstance(idx, tuple) and len(idx) == 0: key = ()
                        if spelling == 'setitem': x[key] = v
                        else: getattr(x, spelling)[key] = v
                    def do_mem():
                        assign(mem); return mem
                    def do_disk():
                        h = D.open_nc(f, mode='a')
                        try: assign(h['v'])
                        finally: h.close()
                        return D.read_nc(f, 'v')
                    r_mem = run_obs(do_mem); r_disk = run_obs(do_disk)
                    if r_mem[0] == 'val' and isinstance(v, float) and mem.dtype.kind == 'i': pass
                    c['_mem'] = r_mem; c['_disk'] = r_disk
                else:
                    h = D.open_nc(f, mode='w', format=c['fmt'])
                    try:
                        h.axes.append('time')                                   # unlimited
                        h.axes.append(D.Axis(ops.labs_np(c['fixlabs'], 'O' if isinstance(c['fixlabs'][0], str) else ('f' if isinstance(c['fixlabs'][0], float) else 'i')), 'x'))
                        h.nc.createVariable('v', 'f8', ('time', 'x') if not c.get('tlast') else ('x', 'time'))
                        if c['tkind'] == 'i': h.nc.createVariable('time', 'i4' if c['fmt'] != 'NETCDF4' else 'i8', ('time',))
                        else: h.nc.createVariable('time', 'f8', ('time',))
                        pos = 0; alll = []; allv = []
                        for st in c['steps']:
                            m = len(st['labels'])
                            piece = D.DimArray(np.array(st['values']), axes=[D.Axis(ops.labs_np(st['labels'], c['tkind']), 'time'), h.axes['x'][:]])
                            if st['how'] == 'scalar':
                                # a scalar position and plain values carry no label: the time label is written explicitly
                                h['v'].ix[pos] = piece.values[0]
                                h.axes['time'][pos] = st['labels'][0]
                            elif st['how'] == 'slice' and c.get('tlast'): h['v'].ix[:, pos:pos + m] = piece.T
                            elif st['how'] == 'slice': h['v'].ix[pos:pos + m] = piece
                            else: h['v'].ix[list(range(pos, pos + m))] = piece
                            pos += m; alll += st['labels']; allv += st['values']
                            got = h['v'].read()
                            want = D.DimArray(np.array(allv).reshape(len(alll), len(c['fixlabs'])), axes=[D.Axis(ops.labs_np(alll, c['tkind']), 'time'), h.axes['x'][:]])
                            if c.get('tlast'): want = want.T
                            if json.dumps(c19.obs_array(got), sort_keys=True, default=str) != json.dumps(c19.obs_array(want), sort_keys=True, default=str) and c['_viol'] is None:
                                c['_viol'] = 'after writing %d rows at positions %d.. of the unlimited dimension (%s), the variable reads %s instead of %s' % (m, pos - m, st['how'], json.dumps(c19.obs_array(got), default=str)[:400], json.dumps(c19.obs_array(want), default=str)[:400])
                        ov = c.get('overwrite')
                        if ov and c['_viol'] is None:
                            piece = D.DimArray(np.array(ov['values']), axes=[D.Axis(ops.labs_np(ov['labels'], c['tkind']), 'time'), h.axes['x'][:]])
                            mem = h['v'].read()
                            key = slice(ov['pos'], ov['pos'] + ov['m']) if ov['how'] == 'slice' else list(range(ov['pos'], ov['pos'] + ov['m']))
                            if ov['how'] == 'mask': key = np.array([ov['pos'] <= j_ < ov['pos'] + ov['m'] for j_ in range(len(alll))])
                            mem.ix[key] = piece
                            h['v'].ix[key] = piece
                            got = h['v'].read()
                            if json.dumps(c19.obs_array(got), sort_keys=True, default=str) != json.dumps(c19.obs_array(mem), sort_keys=True, default=str):
                                c['_viol'] = ('assigning a DimArray (time labels %r) to positions %d..%d INSIDE the unlimited dimension: the on-disk variable reads %s, the same assignment in memory gives %s'
                                              % (ov['labels'], ov['pos'], ov['pos'] + ov['m'] - 1, json.dumps(c19.obs_array(got), default=str)[:300], json.dumps(c19.obs_array(mem), default=str)[:300]))
                            allv = [list(map(float, row)) for row in mem.values.tolist()]
                        sd = c.get('straddle')
                        if sd and c['_viol'] is None:
                            piece = D.DimArray(np.array(sd['values']), axes=[D.Axis(ops.labs_np(sd['labels'], c['tkind']), 'time'), h.axes['x'][:]])
                            h['v'].ix[list(sd['pos'])] = piece
                            n0 = len(alll)
                            for p, l, row in sorted(zip(sd['pos'], sd['labels'], sd['values'])):
                                if p >= n0: alll.append(l); allv.append(row)
                                else: allv[p] = row
                            got = h['v'].read()
                            want = D.DimArray(np.array(allv).reshape(len(alll), len(c['fixlabs'])), axes=[D.Axis(ops.labs_np(alll, c['tkind']), 'time'), h.axes['x'][:]])
                            if json.dumps(c19.obs_array(got), sort_keys=True, default=str) != json.dumps(c19.obs_array(want), sort_keys=True, default=str):
                                c['_viol'] = ('assigning a DimArray (time labels %r) through the position list %r that straddles the end of the unlimited dimension: the variable reads %s instead of %s'
                                              % (sd['labels'], sd['pos'], json.dumps(c19.obs_array(got), default=str)[:300], json.dumps(c19.obs_array(want), default=str)[:300]))
                    finally:
                        h.close()
                    back = D.read_nc(f, 'v')
                    c['_final'] = c19.obs_array(back)
                    if c['_viol'] is None and [lab_json(x) for x in back.axes['time'].values] != [lab_json(x) for x in ops.labs_np(alll, c['tkind'])]:
                        c['_viol'] = 'after closing, the unlimited axis reads %r instead of %r' % (back.axes[0].values.tolist(), alll)
                    c['_mem'] = c['_disk'] = ('val', {})
        except Unsupported: raise
        except Exception as e:
            c['_viol'] = c.get('_viol') or ('the %s scenario raised %s: %s' % (c['kind'], type(e).__name__, str(e)[:200]))
            c['_mem'] = c['_disk'] = ('err', type(e).__name__)
        finally:
            shutil.rmtree(tmp, ignore_errors=True)
        return ('val', {'t': 'pair', 'v': [c['_mem'], c['_disk']]})

    @staticmethod
    def oracle(c, res):
        if c.get('_viol'): return c['_viol']
        if c['kind'] == 'assign' and not same_obs(c['_mem'], c['_disk']):
            return 'assignment %s through the on-disk handle then read gives %s, the same assignment in memory gives %s' % (c['put'][0], json.dumps(c['_disk'], default=str)[:300], json.dumps(c['_mem'], default=str)[:300])
        return None

    HEADER = ('From DA Require Import Prelude NDArray Array PyRT.\nFrom DA.Model Require Import Value Reshape Indexing Align NcFile NcAccess.\nOpen Scope string_scope.\n')
    RUNNER = 'grow_case_ok'
    SHOW = 'grow_case_show'

    @staticmethod
    def coq_case(c, res):
        if c['kind'] != 'unlimited' or c.get('_final') is None: return None
        if c.get('overwrite') or c.get('straddle') or c.get('tlast'): return None      # growth is modelled; the assignment inside the range is compared with the in-memory one (oracle)
        fk = 'O' if isinstance(c['fixlabs'][0], str) else ('f' if isinstance(c['fixlabs'][0], float) else 'i')
        nx = len(c['fixlabs'])
        f0 = ('{| nf_fmt3 := %s; nf_dims := [("time", 0); ("x", %d)]; nf_unl := ["time"]; nf_vars := [("x", {| nv_dims := ["x"]; nv_kind := %s; nv_data := map label_cell %s; nv_attrs := [] |}); '
              '("v", {| nv_dims := ["time"; "x"]; nv_kind := KF; nv_data := []; nv_attrs := [] |}); ("time", {| nv_dims := ["time"]; nv_kind := %s; nv_data := []; nv_attrs := [] |})]; nf_attrs := [] |}'
              % ('true' if c['fmt'] != 'NETCDF4' else 'false', nx, cq_kind(fk), ops.cq_labs(c['fixlabs']), cq_kind(c['tkind'])))
        steps = cq_list(['(%s, %s)' % (ops.cq_labs(st['labels']), cq_list([cq_cell(v) for row in st['values'] for v in row])) for st in c['steps']])
        o = c['_final']
        axs = cq_list(['(Ax %s %s %s %s [])' % (cq_str(x['name']), cq_kind(x['kind']), ops.cq_labs(x['labels']), cq_meta(x['attrs'])) for x in o['axes']])
        e = '(Arr %s %s %s %s %s)' % (axs, cq_list(['%d' % n for n in o['shape']]), cq_kind(o['kind']), cq_list([cq_cell(v) for v in o['flat']]), cq_meta(o['attrs']))
        return '(%s, "v", "time", %s, %s)' % (f0, steps, e)
    @staticmethod
    def nontrivial(c, res): return c['_mem'][0] == 'val'

# =============================================================== suite 2: several files at once
class Multi:
    @staticmethod
    def generate(rng, n, tier, stats):
        cases = []
        while len(cases) < n:
            nf = rng.randint(2, 3)
            fmt = 'NETCDF4'
            pool = c19.gen_pool(rng, fmt, rng.randint(1, 2))
            pool = {d: (k if k != 'O' else 'i', rand_labels(rng, len(l), k if k != 'O' else 'i', 'shuf'), {}) for d, (k, l, _) in pool.items()}
            names = list(pool)
            keys = ['a', 'b'][:rng.randint(1, 2)]
            vdims = {k: rng.sample(names, rng.randint(1, len(names))) for k in keys}
            # every variable has the join axis when concatenating
            mode = rng.choice(['new', 'existing'])
            jax = 'member' if mode == 'new' else names[0]
            if mode == 'existing':
                for k in keys:
                    if jax not in vdims[k]: vdims[k] = [jax] + vdims[k]
            files = []
            differ = rng.random() < 0.5
            for i in range(nf):
                p = {d: (k, list(l), {}) for d, (k, l, _) in pool.items()}
                if mode == 'existing':
                    k0, l0, _ = p[jax]; p[jax] = (k0, [x + 100 * (i + 1) for x in l0] if k0 != 'O' else l0, {})
                if differ:
                    for d in names:
                        if d != jax and rng.random() < 0.5:
                            k0, l0, _ = p[d]; p[d] = (k0, l0[:-1] + [l0[-1] + 50 + i] if l0 else l0, {})
                vars_ = []
                for k in keys:
                    a = c19.gen_nc_array(rng, p, new_stats(), fmt, dims=vdims[k])
                    if a['dtype'] == 'O': a['dtype'] = 'f'; a['flat'] = [float(j) for j in range(len(a['flat']))]
                    a['attrs'] = {}; a['axattrs'] = [{} for _ in a['dims']]
                    vars_.append([k, a])
                files.append({'vars': vars_, 'attrs': {}})
            align = differ or rng.random() < 0.3
            stats['multi'][mode + ('/align' if align else '') + ('/differ' if differ else '')] += 1
            jkeys = None
            if mode == 'existing' and rng.random() < 0.5:
                # keys= along an EXISTING axis: the joined axis is then reindexed onto them (that axis, wherever it sits in the variables)
                alll = [x + 100 * (i + 1) for i in range(nf) for x in pool[jax][1]]
                if alll:
                    jkeys = rng.sample(alll, rng.randint(1, min(3, len(alll)))); stats['multi']['existing+keys'] += 1
            cases.append({'files': files, 'axis': jax, 'mode': mode, 'align': align, 'sort': rng.random() < 0.4,
                          'keys': jkeys if mode == 'existing' else ([10 * (i + 1) for i in range(nf)] if rng.random() < 0.7 else None),
                          'name': rng.choice([None, keys[0]])})
        return cases

    @staticmethod
    def execute(c):
        D = da()
        tmp = tempfile.mkdtemp(prefix='c20_')
        c['_viol'] = None
        try:
            with warnings.catch_warnings():
                warnings.simplefilter('ignore')
                fns = []
                for i, fj in enumerate(c['files']):
                    ds = D.Dataset()
                    for k, a in fj['vars']: ds[k] = mk_array(a)
                    fn = os.path.join(tmp, 'f%d.nc' % i); ds.write_nc(fn); fns.append(fn)
                kw = dict(axis=c['axis'], align=c['align'], sort=c['sort'])
                if c['keys'] is not None: kw['keys'] = c['keys']
                def multi(): return D.read_nc(fns, c['name'], **kw) if c['name'] else D.read_nc(fns, **kw)
                def single():
                    dss = [D.read_nc(fn) for fn in fns]
                    if c['mode'] == 'existing':
                        r = D.concatenate_ds(dss, axis=c['axis'], align=c['align'], sort=c['sort'])
                        if c['keys'] is not None: r = r.reindex_axis(c['keys'], axis=c['axis'])
                    else:
                        keys = c['keys'] if c['keys'] is not None else [os.path.splitext(fn)[0] for fn in fns]
                        r = D.stack_ds(dss, axis=c['axis'], keys=keys, align=c['align'], sort=c['sort'])
                    return r[c['name']] if c['name'] else r
                def ob(f):
                    try:
                        r = f()
                        return ('val', c19.obs_dataset(r) if isinstance(r, D.Dataset) else c19.obs_array(r))
                    except Unsupported: raise
                    except Exception as e: return ('err', type(e).__name__)
                c['_multi'] = ob(multi); c['_single'] = ob(single)
        finally:
            shutil.rmtree(tmp, ignore_errors=True)
        return ('val', {'t': 'pair', 'v': [c['_multi'], c['_single']]})

    @staticmethod
    def oracle(c, res):
        m, s = c['_multi'], c['_single']
        if m[0] != s[0]: return 'reading the files at once gives %s, joining the single reads gives %s' % (json.dumps(m, default=str)[:300], json.dumps(s, default=str)[:300])
        if m[0] == 'val' and json.dumps(m[1], sort_keys=True, default=str) != json.dumps(s[1], sort_keys=True, default=str):
            return 'reading the files at once differs from %s of the single reads: %s vs %s' % ('concatenate_ds' if c['mode'] == 'existing' else 'stack_ds', json.dumps(m[1], default=str)[:300], json.dumps(s[1], default=str)[:300])
        return None

    @staticmethod
    def coq_case(c, res): return None
    @staticmethod
    def nontrivial(c, res): return c['_multi'][0] == 'val'

MODEL_TARGETS = ('Model/NcFile.vo', 'Model/NcAccess.vo')
SUITES = [Read, Write, Multi]
RULE = 'three suites through the netCDF4 stand-in: on-disk reads vs the loaded array for every index form of C01/C02; on-disk assignments (C03 forms) and unlimited-dimension growth; multi-file reads vs stack_ds / concatenate_ds of single reads'
def generate(rng, n, tier, stats): raise NotImplementedError
