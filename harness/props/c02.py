"""C02 - label slices are inclusive bounding boxes; position slices stay NumPy-like.

Correspondence at function level: dimarray.core.indexing.locate_slice (the implementation)
against g_locate_slice (generated from the same source by py2coq) - this validates the
translator and the PyRT/NumPy vocabulary.  Oracle: a[lo:hi:step] on real arrays (1-D and
embedded in N-d arrays with other index kinds) against the property's specification."""
import itertools, math
from common import *
from gen import *
from oracle_util import *
import numpy as np

ID = 'C02'
MODEL_TARGETS = ('Model/SliceSpec.vo',)
HEADER = ('From DA Require Import Prelude NDArray Array PyRT.\n'
          'From DA.Gen Require Import locate_slice.\nFrom DA.Model Require Import SliceSpec.\nOpen Scope string_scope.\n')
RUNNER = 'ls_case_ok'
SHOW = 'ls_show'
N_QUICK = 1500
N_THOROUGH = 6000
STEPS = [None, 1, 2, 3, -1, -2]
RULE = ('function-level cases (axis labels, start, stop, step) drawn from the quantifier: monotonic int/float axes of '
        'length 0-5 in both directions with bounds below/on/between/above/None, shuffled numeric and str axes with bounds '
        'from the labels (and absent ones), steps None,1,2,3,-1,-2; thorough enumerates the monotonic grid completely; '
        'non-trivial = the slice selects at least one element; plus N-d embeddings checked by the oracle')

def mono_axis(rng, n, kind, dec):
    if kind == 'i': labs = sorted(rng.sample(range(-4, 16), n))
    else: labs = sorted(x / 4.0 for x in rng.sample(range(-10, 40), n))
    return labs[::-1] if dec else labs

def bounds_for(rng, labs):
    s = sorted(labs)
    c = [None]
    if s:
        c += [s[0] - 1, s[-1] + 1] + s + [(a + b) / 2.0 for a, b in zip(s, s[1:])]
    else:
        c += [0, 1.5]
    return c

def generate(rng, n, tier, stats):
    cases = []
    while len(cases) < n:
        fam = rng.choice(['mono', 'mono', 'mono', 'shuf', 'str', 'nd'])
        stats['family'][fam] += 1
        step = rng.choice(STEPS)
        if fam in ('mono', 'nd'):
            kind = rng.choice(['i', 'f']); dec = rng.random() < 0.5; ln = rng.randint(0, 5)
            labs = mono_axis(rng, ln, kind, dec)
            if ln >= 2 and rng.random() < 0.1:
                # monotonic, not strictly: one label repeated (both copies lie in the bounding box when the label does)
                j_ = rng.randrange(ln); labs = labs[:j_] + [labs[j_]] + labs[j_:]; stats['repeated_label']['yes'] += 1
            bs = bounds_for(rng, labs)
            lo, hi = rng.choice(bs), rng.choice(bs)
            stats['axis_len'][ln] += 1; stats['direction']['dec' if dec else 'inc'] += 1
        elif fam == 'shuf':
            kind = rng.choice(['i', 'f']); ln = rng.randint(0, 4)
            labs = mono_axis(rng, ln, kind, False); rng.shuffle(labs)
            bs = [None] + labs + ([labs[0] + 0.5] if labs and rng.random() < 0.2 else [])
            lo, hi = rng.choice(bs), rng.choice(bs)
        else:
            kind = 'O'; ln = rng.randint(0, 4)
            labs = rng.sample(STRS, ln)
            bs = [None] + labs + (['zz'] if rng.random() < 0.2 else [])
            lo, hi = rng.choice(bs), rng.choice(bs)
        stats['step'][str(step)] += 1
        stats['bound_kind'][('none' if lo is None else 'label' if lo in labs else 'off') + '/' + ('none' if hi is None else 'label' if hi in labs else 'off')] += 1
        # 'warm': the axis has answered is_monotonic() before (as after any arithmetic / alignment): the cached answer says
        # "strictly monotonic, in either direction", not "sorted increasing"
        c = {'labels': labs, 'kind': kind, 'lo': lo, 'hi': hi, 'step': step, 'warm': rng.random() < 0.4}
        if fam == 'nd':
            # embed in an N-d array, slicing dimension d and indexing the others with other kinds
            nd = rng.randint(2, 3); d = rng.randrange(nd)
            a = rand_array(rng, ndim=nd, minlen=1, maxlen=3)
            a['labels'][d] = labs; a['axdtype'][d] = kind
            size = 1
            for l in a['labels']: size *= len(l)
            a['flat'] = [float(i) for i in range(size)]
            other = []
            for i in range(nd):
                if i == d: other.append(None); continue
                li = a['labels'][i]
                m = rng.choice(['scalar', 'list', 'full'])
                other.append({'scalar': li[0], 'list': [li[-1], li[0]], 'full': 'full'}[m])
            c['nd'] = {'arr': a, 'd': d, 'other': other}
        cases.append(c)
    return cases

def enumerate_cases(tier, stats):
    """the quantifier's monotonic domain on a fixed label grid; complete in thorough, a slice of it in quick"""
    out = []
    for kind in ('i', 'f'):
        for n in range(0, 6):
            for dec in (False, True):
                labs = [2 * (i + 1) if kind == 'i' else 2.0 * (i + 1) for i in range(n)]
                if dec: labs = labs[::-1]
                bs = [None] + [float(b) if kind == 'f' else b for b in range(1, 2 * n + 2)]
                for lo in bs:
                    for hi in bs:
                        for st in STEPS:
                            out.append({'labels': labs, 'kind': kind, 'lo': lo, 'hi': hi, 'step': st, 'warm': len(out) % 3 == 0})
    if tier != 'thorough':
        out = out[::11]
    stats['family']['grid'] += len(out)
    return out

def _np_labels(c):
    return labs_arr(c['labels'], c['kind'])

def labs_arr(labels, kind):
    if kind == 'O':
        a = np.empty(len(labels), dtype=object)
        for i, x in enumerate(labels): a[i] = x
        return a
    return np.array(labels, dtype={'i': np.int64, 'f': float}[kind])

def execute(c):
    from dimarray.core.indexing import locate_slice
    vals = _np_labels(c)
    def f():
        a, b = locate_slice(vals, c['lo'], c['hi'], c['step'])
        return (None if a is None else int(a), None if b is None else int(b))
    try:
        return ('val', f())
    except Exception as e:
        n = type(e).__name__
        return ('err', n if n in EXN else 'OtherError')

def cq_pv(x):
    if x is None: return 'PNone'
    if isinstance(x, str): return '(PStr %s)' % cq_str(x)
    return '(PNum %s)' % cq_q(x)

def coq_case(c, res):
    ls = '(PArr %s %s)' % (cq_kind(c['kind']), cq_list([cq_pv(x) for x in c['labels']]))
    oz = lambda z: 'None' if z is None else '(Some %s)' % cq_z(z)
    if res[0] == 'val':
        e = '(Ok (%s, %s))' % (oz(res[1][0]), oz(res[1][1]))
    else:
        e = '(Err %s)' % res[1]
    return '(%s, %s, %s, %s, %s)' % (ls, cq_pv(c['lo']), cq_pv(c['hi']), oz(c['step']), e)

# ---------------------------------------------------------------- oracle
def is_mono(labs):
    # monotonic, increasing or decreasing, a repeated label allowed (a constant axis of two or more labels has no direction: not generated)
    return all(b >= a for a, b in zip(labs, labs[1:])) or all(b <= a for a, b in zip(labs, labs[1:]))

def spec_positions(labs, kind, lo, hi, step):
    """positions the property says a[lo:hi:step] selects, or 'IndexError'"""
    n = len(labs); k = abs(step) if step else 1; neg = bool(step and step < 0)
    if kind != 'O' and is_mono(labs):
        order = list(range(n))[::-1] if neg else list(range(n))
        inc = (labs[-1] >= labs[0]) if n else True
        travel_inc = (inc != neg)
        def ok(x):
            a, b = (lo, hi) if travel_inc else (hi, lo)
            return (a is None or a <= x) and (b is None or x <= b)
        return [i for i in order if ok(labs[i])][::k]
    for b in (lo, hi):
        if b is not None and b not in labs: return 'IndexError'
    if n == 0: return []
    p1 = labs.index(lo) if lo is not None else (n - 1 if neg else 0)
    p2 = labs.index(hi) if hi is not None else (0 if neg else n - 1)
    return (list(range(p1, p2 - 1, -1)) if neg else list(range(p1, p2 + 1)))[::k]

def oracle(c, res):
    D = da()
    labs, kind = c['labels'], c['kind']
    want = spec_positions(labs, kind, c['lo'], c['hi'], c['step'])
    sl = slice(c['lo'], c['hi'], c['step'])
    # 1-D array carrying its own positions as data
    a = D.DimArray(np.arange(len(labs), dtype=float), axes=[D.Axis(_np_labels(c), 'x')])
    if c.get('warm'):
        try: a.axes[0].is_monotonic()
        except Exception: pass
    got = run_impl(lambda: a[sl])
    msg = _cmp(want, got, labs)
    if msg: return '1-D a[%r:%r:%r] on axis %r: %s' % (c['lo'], c['hi'], c['step'], labs, msg)
    # position slices keep the exclusive stop
    if len(labs) >= 2 and c['step'] in (None, 1, 2, -1):
        i, j = 0, len(labs) - 1
        g = run_impl(lambda: a.ix[i:j:c['step']])
        w = list(range(len(labs)))[i:j:c['step']]
        m = _cmp(w, g, labs)
        if m: return 'position slice .ix[%d:%d:%r]: %s' % (i, j, c['step'], m)
    if 'nd' in c:
        nd = c['nd']; arr = mk_array(nd['arr']); d = nd['d']
        if c.get('warm'):
            for ax_ in arr.axes:
                try: ax_.is_monotonic()
                except Exception: pass
        idx = tuple(sl if i == d else (slice(None) if o == 'full' else o) for i, o in enumerate(nd['other']))
        got = run_impl(lambda: arr[idx])
        ref_pos = []
        for i, o in enumerate(nd['other']):
            li = nd['arr']['labels'][i]
            if i == d: ref_pos.append(want)
            elif o == 'full': ref_pos.append(list(range(len(li))))
            elif isinstance(o, list): ref_pos.append([li.index(x) for x in o])
            else: ref_pos.append(li.index(o))
        if want == 'IndexError':
            if got != ('err', 'IndexError'): return 'N-d: expected IndexError, got %r' % (got,)
        else:
            if got[0] != 'val': return 'N-d: raised %s' % got[1]
            v = arr.values[np.ix_(*[p if isinstance(p, list) else [p] for p in ref_pos])]
            v = v.reshape([len(p) for p in ref_pos if isinstance(p, list)])
            g = got[1]
            flat = g['v']['flat'] if g['t'] == 'arr' else [g['v']]
            if [float(x) for x in v.ravel()] != [float(x) for x in flat]:
                return 'N-d embedding %r: wrong elements' % (idx,)
            if g['t'] == 'arr':
                axd = [x for x in g['v']['axes'] if x['name'] == nd['arr']['dims'][d]]
                if not axd or not labs_eq(axd[0]['labels'], [labs[i] for i in want]):
                    return 'N-d embedding: sliced axis labels wrong'
    return None

def _cmp(want, got, labs):
    if want == 'IndexError':
        return None if got == ('err', 'IndexError') else 'expected IndexError, got %r' % (got,)
    if got[0] != 'val': return 'raised %s, expected positions %r' % (got[1], want)
    g = got[1]
    if g['t'] != 'arr': return 'not an array'
    pos = [int(x) for x in g['v']['flat']]
    if pos != want: return 'selected positions %r, expected %r' % (pos, want)
    if not labs_eq(g['v']['axes'][0]['labels'], [labs[i] for i in want]): return 'labels do not follow the data'
    return None

def nontrivial(c, res):
    w = spec_positions(c['labels'], c['kind'], c['lo'], c['hi'], c['step'])
    return isinstance(w, list) and len(w) > 0

TRUSTED = ['Gen/locate_slice.v is regenerated from /repo/dimarray/core/indexing.py on every run; np.searchsorted is modelled by its contract on sorted input (count of elements < v / <= v); locate_one is hand-modelled (PyRT.h_locate_one)']
