"""C18 - interp_axis is per-fibre linear interpolation, exact at the nodes."""
import itertools, math
from common import *
from gen import *
from oracle_util import *
import ops
import numpy as np
import json

ID = 'C18'
STRICT_ERR = False
N_QUICK = 400
N_THOROUGH = 5000
RUNNER = 'run_case_approx'
EXPLANATION = ('the interpolation formula involves a division and a product: the model computes the exact rational value and the '
               'comparison with the implementation allows a relative difference of 1e-9; values at the nodes and the fills are compared as they are')

def generate(rng, n, tier, stats):
    cases = []
    while len(cases) < n:
        nd = rng.randint(1, 4)
        dtype = rng.choice(['f', 'f', 'i'])
        a = rand_array(rng, stats=stats, dtype=dtype, ndim=nd, minlen=1, maxlen=4, kinds=('i', 'f'), attrs=rng.random() < 0.4)
        i = rng.randrange(nd); r = a['dims'][i] if rng.random() < 0.5 else i
        labs = a['labels'][i]
        size = len(a['flat'])
        a['flat'] = [rng.choice(range(-4, 9)) if dtype == 'i' else rng.choice([x / 2.0 for x in range(-6, 14)]) for _ in range(size)]
        if dtype == 'f' and rng.random() < 0.1: a['flat'] = [float('nan') if rng.random() < 0.15 else v for v in a['flat']]
        if dtype == 'f' and rng.random() < 0.08:
            # infinite cells are ordinary float data: exact at the nodes like any other value (oracle only: the model has rationals and NaN)
            a['flat'] = [(float('inf') if rng.random() < 0.5 else float('-inf')) if (v == v and rng.random() < 0.2) else v for v in a['flat']]
            stats['infinite_cells']['yes'] += 1
        lo, hi = min(labs), max(labs)
        pts = []
        for _ in range(rng.randint(0, 5)):
            kind = rng.choice(['below', 'on', 'between', 'above'])
            stats['point'][kind] += 1
            if kind == 'below': pts.append(lo - rng.choice([0.5, 1, 3]))
            elif kind == 'above': pts.append(hi + rng.choice([0.5, 1, 3]))
            elif kind == 'on': pts.append(rng.choice(labs))
            else:
                s = sorted(labs)
                if len(s) < 2: pts.append(s[0])
                else:
                    j = rng.randrange(len(s) - 1); pts.append(s[j] + (s[j + 1] - s[j]) * rng.choice([0.5, 0.25, 0.75]))
        pts = list(dict.fromkeys(pts))
        if rng.random() < 0.5: pts.sort()
        kind = 'i' if pts and all(float(p).is_integer() for p in pts) and rng.random() < 0.5 else 'f'
        if kind == 'i': pts = [int(p) for p in pts]
        left = rng.choice([None, None, -99.0]); right = rng.choice([None, None, 77.5])
        if rng.random() < 0.12: left = 'edge'
        if rng.random() < 0.12: right = 'edge'
        stats['fills'][('edge' if left == 'edge' else 'nan' if left is None else 'number') + '/' + ('edge' if right == 'edge' else 'nan' if right is None else 'number')] += 1
        if rng.random() < 0.3:
            # interp_like: the other object shares 0..nd dimensions with the array (in its own order) and has further ones
            k = rng.randint(0, nd); sh = rng.sample(range(nd), k)
            others = []
            for j in sh:
                if j == i: others.append([a['dims'][j], kind, pts]); continue
                lj = a['labels'][j]; pj = sorted(set([rng.choice(lj), min(lj) - 1, (min(lj) + max(lj)) / 2.0, max(lj) + 2]))
                pj = rng.sample(pj, rng.randint(1, len(pj)))
                others.append([a['dims'][j], 'f', [float(x) for x in pj]])
            if rng.random() < 0.5: others.append(['other%d' % rng.randrange(9), 'i', [1, 2]])
            rng.shuffle(others)
            stats['interp_like_shared'][k] += 1
            cases.append({'ins': [a], 'ops': [['interp_like', others, None if left == 'edge' else left, None if right == 'edge' else right, rng.random() < 0.3]]})
            continue
        op = ['interp', pts, kind, r, left, right]
        if labs == sorted(labs) and rng.random() < 0.5:
            op.append(True); stats['issorted']['True'] += 1          # issorted=True where applicable: the axis is increasing
        else: stats['issorted']['None'] += 1
        cases.append({'ins': [a], 'ops': [op]})
    return cases

def oracle_like(case, res):
    a = case['ins'][0]; _, others, left, right, _ = case['ops'][0]
    arr = mk_array(a); obs = arr_json(arr)
    if res[0] == 'err': return 'interp_like raised %s' % res[1]
    rr = res[1]['v']
    if obs_dims(rr) != a['dims']: return 'dims changed'
    if rr['attrs'] != obs['attrs']: return 'metadata lost'
    v = np.asarray(arr.values, dtype=float)
    om = {}
    for n, k, l in others: om.setdefault(n, l)
    for p, d in enumerate(a['dims']):
        if d not in om:
            if not labs_eq(rr['axes'][p]['labels'], a['labels'][p]): return 'an axis the other object does not have changed'
            continue
        pts = om[d]
        if not labs_eq(rr['axes'][p]['labels'], pts): return 'axis %s is %r, expected exactly the other object\'s labels %r' % (d, rr['axes'][p]['labels'], pts)
        x = np.array(a['labels'][p], dtype=float); order = np.argsort(x)
        f = lambda fib: np.interp(np.array(pts, dtype=float), x[order], fib[order], left=np.nan if left is None else left, right=np.nan if right is None else right)
        if len(pts) == 0: v = v.take([], axis=p)
        elif v.size == 0: v = np.zeros(v.shape[:p] + (len(pts),) + v.shape[p + 1:])
        else: v = np.apply_along_axis(f, p, v)
    w = v.ravel().tolist()
    if len(w) != len(rr['flat']): return 'shape differs'
    for g, y in zip(rr['flat'], w):
        if _differs(g, y): return 'value %r, successive numpy.interp on the fibres gives %r' % (g, y)
    return None

def _cf(g):
    """observed cell -> float (NaN and +-inf come as {'nan': 1} / {'inf': +-1})"""
    if isinstance(g, dict): return float('nan') if 'nan' in g else float('inf') * g['inf']
    return float(g)
def _differs(g, y):
    g = _cf(g)
    fin = lambda t: t == t and not math.isinf(t)
    # between two nodes of which one holds an infinite value the "straight line" is not defined: numpy.interp evaluates it from both
    # ends to avoid NaN, the weighted sum gives NaN; a non-finite expectation is met by any non-finite value (AT a node the value
    # itself is demanded, see the node check below)
    if not fin(g) or not fin(y): return fin(g) != fin(y)
    return abs(g - y) > 1e-9 * (1 + abs(y))

def oracle(case, res):
    if case['ops'][0][0] == 'interp_like': return oracle_like(case, res)
    a = case['ins'][0]; _, pts, kind, r, left, right = case['ops'][0][:6]
    arr = mk_array(a); obs = arr_json(arr)
    p = a['dims'].index(r) if isinstance(r, str) else r
    if res[0] == 'err': return 'interp_axis raised %s' % res[1]
    rr = res[1]['v']
    if obs_dims(rr) != a['dims']: return 'dims changed'
    if not labs_eq(rr['axes'][p]['labels'], pts): return 'axis is %r, expected exactly the new points %r' % (rr['axes'][p]['labels'], pts)
    for j, ax in enumerate(rr['axes']):
        if j != p and not labs_eq(ax['labels'], a['labels'][j]): return 'another axis changed'
    if rr['attrs'] != obs['attrs']: return 'metadata lost'
    x = np.array(a['labels'][p], dtype=float); order = np.argsort(x)
    v = np.asarray(arr.values, dtype=float)
    def f(fib):
        return np.interp(np.array(pts, dtype=float), x[order], fib[order],
                         left=np.nan if left is None else None if left == 'edge' else left,
                         right=np.nan if right is None else None if right == 'edge' else right)
    want = np.apply_along_axis(f, p, v) if len(pts) else v.take([], axis=p)
    w = want.ravel().tolist()
    if len(w) != len(rr['flat']): return 'shape differs'
    for g, y in zip(rr['flat'], w):
        if _differs(g, y): return 'value %r, numpy.interp on the fibre gives %r' % (g, y)
    # exact at the nodes
    labs = a['labels'][p]
    for k, q in enumerate(pts):
        if q in labs:
            j = labs.index(q)
            got = np.take(np.array([_cf(c) for c in rr['flat']]).reshape(rr['shape']), k, axis=p)
            orig = np.take(v, j, axis=p)
            if not np.array_equal(got, orig, equal_nan=True): return 'original values not reproduced at the existing label %r' % (q,)
    # the Dataset variant agrees with the array one; a variable lacking the axis is handed over unchanged
    D = da()
    try:
        with warnings.catch_warnings():
            warnings.simplefilter('ignore')
            with np.errstate(all='ignore'):
                ds = D.Dataset(); ds['v'] = arr; ds.attrs['note'] = 'kept'
                if arr.ndim > 1: ds['w'] = arr.take({a['dims'][p]: 0}, indexing='position')
                kw = {}
                if left is not None: kw['left'] = None if left == 'edge' else left
                if right is not None: kw['right'] = None if right == 'edge' else right
                rds = ds.interp_axis(ops.labs_np(pts, kind), axis=a['dims'][p], **kw)
                gv = arr_json(rds['v']); ds_attrs = dict(rds.attrs)
    except Exception as e:
        return 'Dataset.interp_axis raised %s where the array method succeeds' % type(e).__name__
    if obs_dims(gv) != obs_dims(rr) or len(gv['flat']) != len(rr['flat']): return 'Dataset.interp_axis: dims / shape differ from the array result'
    for g, y in zip(gv['flat'], rr['flat']):
        if _differs(g, _cf(y)):
            return 'Dataset.interp_axis gives %r where DimArray.interp_axis gives %r (left=%r right=%r)' % (g, y, left, right)
    if not labs_eq(gv['axes'][p]['labels'], pts): return 'Dataset.interp_axis: axis is not the new points'
    if gv['attrs'] != rr['attrs']: return 'Dataset.interp_axis: the metadata of the variable is %r, DimArray.interp_axis keeps %r' % (gv['attrs'], rr['attrs'])
    if ds_attrs != {'note': 'kept'}: return 'Dataset.interp_axis: the metadata of the dataset became %r' % (ds_attrs,)
    if arr.ndim > 1:
        w0 = arr_json(arr.take({a['dims'][p]: 0}, indexing='position')); w1 = arr_json(rds['w'])
        if json.dumps(w0, sort_keys=True, default=str) != json.dumps(w1, sort_keys=True, default=str): return 'Dataset.interp_axis changed a variable that lacks the axis'
    return None

def nontrivial(case, res):
    return res[0] == 'val' and len(res[1]['v']['flat']) > 1
