"""C08 - reductions equal NumPy's along the named axis and drop only that axis."""
import itertools, math
from fractions import Fraction
from common import *
from gen import *
from oracle_util import *
import ops
import numpy as np

ID = 'C08'
STRICT_ERR = False
N_QUICK = 500
N_THOROUGH = 6000
RUNNER = 'run_case_approx'
FUNCS = ['sum', 'prod', 'mean', 'var', 'std', 'min', 'max', 'ptp', 'all', 'any', 'median']
EXPLANATION = ('mean/var/std involve division by n and a square root: the model computes the exact rational value and the '
               'comparison with the implementation allows a relative difference of 1e-9 (std is compared through its square); '
               'all other comparisons are exact')

def generate(rng, n, tier, stats):
    cases = []
    while len(cases) < n:
        if rng.random() < 0.1:
            nd = rng.randint(1, 4)
            a = rand_array(rng, stats=stats, dtype=rng.choice(['f', 'f', 'i']), ndim=nd, lens=[rng.randint(1, 4) if nd < 3 else rng.randint(2, 3) for _ in range(nd)], attrs=True)    # (integer data: the percentiles are floats, as NumPy gives)
            i = rng.randrange(nd)
            q = rng.choice([50, 25, [25, 50], [0, 100, 50]])
            stats['function']['percentile'] += 1
            r_ = a['dims'][i] if rng.random() < 0.5 else i
            if nd >= 2 and not isinstance(q, list) and rng.random() < 0.5:
                r_ = rng.sample(a['dims'], rng.randint(2, nd))       # "a tuple of dimensions reduces over all of them at once"
                if nd >= 3 and rng.random() < 0.5:                   # the first dimension stays: the group is not at position 0
                    r_ = rng.sample(a['dims'][1:], rng.randint(2, nd - 1))
                stats['percentile_axis']['tuple'] += 1
            cases.append({'ins': [a], 'ops': [['percentile', q, r_]]})
            continue
        name = rng.choice(FUNCS)
        dtype = rng.choice(['f', 'f', 'f', 'i', 'b'] if name in ('all', 'any', 'sum', 'min', 'max') else ['f', 'f', 'i'])
        nd = rng.randint(1, 4)
        lens = [rng.randint(1, 4) for _ in range(nd)]
        single = rng.random() < 0.2
        # median with skipna=False masks the slices that hold a NaN, slice by slice: NaNs in SOME of the slices, reduced along the
        # first dimension (or a tuple of dimensions, which is reduced at position 0 after flattening)
        focus_med = rng.random() < 0.05
        if focus_med:
            name = 'median'; dtype = 'f'; single = False; nd = rng.randint(2, 3); lens = [rng.randint(2, 4) for _ in range(nd)]
            stats['median_nan_in_some_slices']['yes'] += 1
        # mean over a TUPLE of dimensions with skipna=True and NaNs spread unevenly: one mean over all the cells, not a mean of means
        focus_mean = (not focus_med) and rng.random() < 0.04
        if focus_mean:
            name = 'mean'; dtype = 'f'; single = False; nd = rng.randint(2, 3); lens = [rng.randint(2, 3) for _ in range(nd)]
            stats['mean_over_tuple_uneven_nans']['yes'] += 1
        if single and dtype == 'f' and rng.random() < 0.5: name = rng.choice(['median', 'median', 'mean', 'min'])
        if single:
            # single-element / single-slice results: every dimension but one has size 1
            keep = rng.randrange(nd)
            lens = [l if j == keep else 1 for j, l in enumerate(lens)]
            if lens[keep] == 1: lens[keep] = rng.randint(2, 4)
        stats['shape_family']['single_element_result' if single else 'random'] += 1
        a = rand_array(rng, stats=stats, dtype=dtype, ndim=nd, lens=lens, attrs=rng.random() < 0.5)
        size = len(a['flat'])
        if dtype == 'f':
            pool = [x / 2.0 for x in range(-6, 12)] if name != 'prod' else [1.0, 2.0, 0.5, -1.0, 4.0, 0.0]
            a['flat'] = [rng.choice(pool) for _ in range(size)]
            pat = rng.choice(['none', 'none', 'some', 'slice', 'all'])
            if single and name == 'median': pat = rng.choice(['some', 'some', 'none'])
            # ptp has no nan-aware numpy function: it goes through the masked-array wrapper, whose all-NaN slices must come back as NaN
            if name == 'ptp' and not single: pat = rng.choice(['slice', 'slice', 'all', 'some', 'none'])
            if focus_med or focus_mean: pat = 'few'
            stats['nan_pattern'][pat] += 1
            if pat == 'few':
                a['flat'] = list(a['flat']); a['flat'][rng.randrange(size)] = float('nan')
                if rng.random() < 0.5: a['flat'][rng.randrange(size)] = float('nan')
            elif pat == 'some': a['flat'] = [float('nan') if rng.random() < 0.25 else v for v in a['flat']]
            elif pat == 'slice' and nd >= 1:
                d = rng.randrange(nd); j = rng.randrange(lens[d])
                for k, c in enumerate(itertools.product(*[range(x) for x in lens])):
                    if c[d] == j: a['flat'][k] = float('nan')
            elif pat == 'all': a['flat'] = [float('nan')] * size
        elif dtype == 'i':
            a['flat'] = [rng.choice(range(-3, 6) if name != 'prod' else [1, 2, -1, 3, 0]) for _ in range(size)]
        skipna = rng.random() < (0.5 if name != 'ptp' else 0.75)
        # all / any with skipna=True ignore the NaNs too: over an all-NaN slice nothing is left, all() is True and any() is False
        if name in ('all', 'any') and dtype == 'f' and rng.random() < 0.5: skipna = True; stats['all_any_skipna'][pat] += 1
        if dtype == 'b' and skipna: skipna = False
        if focus_med: skipna = False
        if focus_mean: skipna = True
        form = rng.choice(['name', 'pos', 'none', 'tuple'])
        if focus_mean: form = 'tuple'
        if single and form in ('none', 'tuple'): form = rng.choice(['name', 'pos'])
        if focus_med: form = rng.choice(['name', 'pos', 'tuple'])
        if form == 'name': ax = a['dims'][keep if single else (0 if focus_med else rng.randrange(nd))]
        elif form == 'pos': ax = keep if single else (0 if focus_med else rng.randrange(nd))
        elif form == 'none': ax = None
        else:
            k = rng.randint(2 if focus_mean else 1, nd); idx = rng.sample(range(nd), k)
            ax = [a['dims'][i] if rng.random() < 0.7 else i for i in idx]
        stats['function'][name] += 1; stats['axis_form'][form] += 1; stats['skipna'][str(skipna)] += 1
        cases.append({'ins': [a], 'ops': [['reduce', name, skipna, ax]]})
    return cases

def _np_oracle(arr, name, skipna, pos):
    """NumPy's f over .values along the axis (the property's own words), NaN policy as stated"""
    v = arr.values
    with np.errstate(all='ignore'):
        import warnings
        with warnings.catch_warnings():
            warnings.simplefilter('ignore')
            if skipna and v.dtype.kind == 'f':
                if name == 'ptp': return np.nanmax(v, axis=pos) - np.nanmin(v, axis=pos)
                # NaNs ignored as missing values: they are neutral for all() and for any()
                if name == 'all': return np.all(np.where(np.isnan(v), True, v != 0), axis=pos)
                if name == 'any': return np.any(np.where(np.isnan(v), False, v != 0), axis=pos)
                return getattr(np, 'nan' + name)(v, axis=pos)
            r = getattr(np, name)(v, axis=pos)
            if name == 'median' and v.dtype.kind == 'f':
                nan = np.isnan(v).any(axis=pos)
                r = np.where(nan, np.nan, r)
            return r

def execute(c):
    a = mk_array(c['ins'][0])
    o = c['ops'][0]
    res = run_impl(lambda: ops.run_ops([a], c['ops']))
    if o[0] == 'percentile': return res
    if res[0] == 'val' and res[1]['t'] == 'arr' and res[1]['v']['shape'] == []:
        # a 0-d DimArray (masked-array path) is accepted as the scalar result
        res = ('val', {'t': 'cell', 'v': res[1]['v']['flat'][0]})
    if o[1] == 'std' and res[0] == 'val':
        # compare through the square: the model returns the variance
        def sq(x):
            if isinstance(x, dict) or x is None: return x
            f = Fraction(*float(x).as_integer_ratio()) ** 2
            return f
        if res[1]['t'] == 'arr': res[1]['v']['flat'] = [sq(x) for x in res[1]['v']['flat']]
        elif res[1]['t'] == 'cell': res[1]['v'] = sq(res[1]['v'])
        c['_squared'] = True
    return res

def oracle_percentile(case, res):
    a = case['ins'][0]; _, q, r = case['ops'][0]
    arr = mk_array(a); obs = arr_json(arr)
    if isinstance(r, list):
        poss = tuple(a['dims'].index(x) for x in r)
        if res[0] == 'err': return 'percentile over the dimensions %r raised %s' % (r, res[1])
        want = np.asarray(np.percentile(arr.values, q, axis=poss))
        rest = [i for i in range(len(a['dims'])) if i not in poss]; pos = None
    else:
        pos = a['dims'].index(r) if isinstance(r, str) else r
        if res[0] == 'err': return 'percentile raised %s' % res[1]
        want = np.asarray(np.percentile(arr.values, q, axis=pos))
        rest = [i for i in range(len(a['dims'])) if i != pos]
    g = res[1]
    if g['t'] == 'cell':
        return None if (not rest and not isinstance(q, list) and abs(float(g['v']) - float(want)) < 1e-9) else 'scalar result'
    rr = g['v']
    exp_dims = [a['dims'][i] for i in rest]
    if isinstance(q, list): exp_dims = [a['dims'][pos] + '_percentile'] + exp_dims
    if obs_dims(rr) != exp_dims: return 'dims %r, expected %r' % (obs_dims(rr), exp_dims)
    if isinstance(q, list) and not labs_eq(rr['axes'][0]['labels'], q): return 'percentile axis not labelled by q'
    if rr['attrs'] != obs['attrs']: return 'metadata not carried by percentile'
    if any(abs(float(x) - float(y)) > 1e-9 for x, y in zip(rr['flat'], want.ravel().tolist())): return 'values differ from np.percentile'
    return None

def oracle(case, res):
    if case['ops'][0][0] == 'percentile': return oracle_percentile(case, res)
    a = case['ins'][0]; _, name, skipna, ax = case['ops'][0]
    arr = mk_array(a); obs = arr_json(arr)
    if res[0] == 'err':
        if skipna and name in ('min', 'max', 'median', 'ptp') : return None
        return 'reduction raised %s' % res[1]
    if ax is None: pos = None; rest = []
    elif isinstance(ax, list):
        pos = tuple(a['dims'].index(r) if isinstance(r, str) else r for r in ax)
        rest = [i for i in range(len(a['dims'])) if i not in pos]
    else:
        pos = a['dims'].index(ax) if isinstance(ax, str) else ax
        rest = [i for i in range(len(a['dims'])) if i != pos]
    want = np.asarray(_np_oracle(arr, name, skipna, pos))
    g = res[1]
    if not rest:
        if g['t'] != 'cell': return 'expected a scalar, got %s' % g['t']
        got = [g['v']]; gshape = []
    else:
        if g['t'] != 'arr': return 'expected an array labelled with the remaining axes, got %s' % g['t']
        r = g['v']
        if obs_dims(r) != [a['dims'][i] for i in rest]: return 'dims %r, expected the remaining %r' % (obs_dims(r), [a['dims'][i] for i in rest])
        for ax_, i in zip(r['axes'], rest):
            if not labs_eq(ax_['labels'], a['labels'][i]): return 'axis %s changed' % ax_['name']
        if r['attrs'] != obs['attrs']: return 'metadata not carried'
        got = r['flat']; gshape = r['shape']
    if list(want.shape) != gshape: return 'shape %r, NumPy gives %r' % (gshape, list(want.shape))
    wf = want.ravel().tolist()
    for x, y in zip(got, wf):
        if case.get('_squared') and not isinstance(x, dict): 
            ok = (y != y and x != x) or abs(float(x) - y * y) <= 1e-9 * (1 + abs(y * y))
        elif isinstance(x, dict): ok = (y != y)
        elif isinstance(y, float) and y != y: ok = False
        else: ok = abs(float(x) - float(y)) <= 1e-9 * (1 + abs(float(y)))
        if not ok: return 'value %r, NumPy gives %r' % (x, y)
    return None

def nontrivial(case, res):
    return res[0] == 'val' and len(case['ins'][0]['flat']) > 1
