"""C19 - serialisation round-trips: JSON and netCDF (two suites; netCDF through the stand-in module netcdf_standin/netCDF4)."""
import copy, json, os, shutil, tempfile
from common import *
from gen import *
from oracle_util import *
import ops
import numpy as np

ID = 'C19'
N_QUICK = 500
N_THOROUGH = 5000

def nc_meta(rng, allow_list=True):
    pool = {'units': 'K', 'long_name': 'temperature', 'scale': 2.5, 'count': 3, 'levels': [1.0, 2.5], 'ids': [3, 1, 2], 'title': 'a b',
            '_revision': 3, '_origin': 'model clock'}      # (names with a leading underscore are ordinary metadata too; only _FillValue is reserved)
    ks = rng.sample(sorted(pool), rng.randint(0, 3))
    return {k: pool[k] for k in ks if allow_list or not isinstance(pool[k], list)}

def norm_meta(d):
    """metadata compared up to the numeric container: numpy scalars / arrays vs Python numbers / lists"""
    out = {}
    if 'missing_value' in d and '_FillValue' in d:
        d = {k: v for k, v in d.items() if k != '_FillValue'}      # (see gen_nc_array)
    for k, v in d.items():
        if isinstance(v, np.ndarray): v = v.tolist()
        elif isinstance(v, np.generic): v = v.item()
        if isinstance(v, (list, tuple)): v = [float(x) if isinstance(x, (int, float)) and not isinstance(x, bool) else x for x in v]
        elif isinstance(v, (int, float)) and not isinstance(v, bool): v = float(v)
        out[str(k)] = v
    return out

def obs_array(a):
    return {'dims': list(a.dims), 'kind': {'U': 'O', 'S': 'O'}.get(kind_of(a.values), kind_of(a.values)), 'shape': list(a.shape),
            'flat': [cellj(v) for v in np.asarray(a.values).ravel().tolist()], 'attrs': norm_meta(a.attrs),
            'axes': [{'name': ax.name, 'labels': [lab_json(l) for l in ax.values], 'kind': kind_of(ax.values), 'attrs': norm_meta(ax.attrs)} for ax in a.axes]}
def cellj(v):
    if isinstance(v, float) and v != v: return {'nan': 1}
    return v
def obs_dataset(ds):
    return {'dims': list(ds.dims), 'axes': [{'name': ax.name, 'labels': [lab_json(l) for l in ax.values], 'kind': kind_of(ax.values), 'attrs': norm_meta(ax.attrs)} for ax in ds.axes],
            'vars': [[k, obs_array(dict.__getitem__(ds, k))] for k in ds.keys()], 'attrs': norm_meta(ds.attrs)}

def same_cells(x, y):
    if len(x) != len(y): return False
    for a, b in zip(x, y):
        if isinstance(a, dict) or isinstance(b, dict):
            if not (isinstance(a, dict) and isinstance(b, dict)): return False
        elif isinstance(a, str) != isinstance(b, str) or isinstance(a, bool) != isinstance(b, bool) or a != b: return False
    return True

# =============================================================== suite 0: JSON
class Json:
    HEADER = ('From DA Require Import Prelude NDArray Array PyRT.\nFrom DA.Model Require Import Value Reshape Json.\nOpen Scope string_scope.\n')
    RUNNER = 'jcase_ok'
    SHOW = 'jcase_show'

    @staticmethod
    def generate(rng, n, tier, stats):
        cases = []
        while len(cases) < n:
            nd = rng.choice([0, 1, 1, 2, 2, 3])
            dt = rng.choice(['f', 'f', 'i', 'b'])
            a = rand_array(rng, ndim=nd, minlen=0 if rng.random() < 0.15 else 1, maxlen=3, dtype=dt, nan_p=0.15 if dt == 'f' else 0, kinds=('i', 'f', 'O'))
            a['attrs'] = {k: v for k, v in rand_meta(rng).items()}
            if rng.random() < 0.2: a['attrs']['nested'] = {'a': [1, 2], 'b': 'x'}
            if rng.random() < 0.25:
                # metadata keys that are also names of properties / methods of the class, or of a dimension of the array
                for k in rng.sample(['size', 'shape', 'max', 'mean', 'ndim', 'T'] + list(a['dims']), rng.randint(1, 2)):
                    a['attrs'][k] = rng.choice(['big', 2.5, 7])
                stats['json_meta_member_names']['yes'] += 1
            if rng.random() < 0.2:
                # ... or names of constructor parameters (metadata is restored onto the new object, it is not a constructor argument)
                for k in rng.sample(['dtype', 'labels', 'copy', '_indexing', 'dims', 'axes', 'values'], rng.randint(1, 2)):
                    a['attrs'][k] = {'dtype': 'int16', 'copy': False, '_indexing': 'position'}.get(k, rng.choice(['kept', 2.5]))
                stats['json_meta_ctor_param_names']['yes'] += 1
            stats['json_dtype'][dt] += 1; stats['json_ndim'][nd] += 1
            stats['json_empty'][str(0 in [len(l) for l in a['labels']])] += 1
            cases.append({'arr': a})
        return cases

    @staticmethod
    def execute(c):
        D = da()
        a = mk_array(c['arr'])
        before = json.dumps(obs_array(a), sort_keys=True, default=str)
        def go():
            s = a.to_json()
            json.loads(s)             # it is JSON
            return D.DimArray.from_json(s)
        res = run_impl(lambda: go())
        c['_orig'] = obs_array(a)
        c['_changed'] = before != json.dumps(obs_array(a), sort_keys=True, default=str)
        if res[0] == 'val':
            with warnings.catch_warnings():
                warnings.simplefilter('ignore')
                c['_back'] = obs_array(go())
        return res

    @staticmethod
    def oracle(c, res):
        if c.get('_changed'): return 'to_json changed the in-memory array'
        if res[0] == 'err': return 'from_json(to_json(a)) raised %s' % res[1]
        o, b = c['_orig'], c['_back']
        if b['dims'] != o['dims']: return 'dims %r -> %r' % (o['dims'], b['dims'])
        if b['shape'] != o['shape']: return 'shape %r -> %r' % (o['shape'], b['shape'])
        if not same_cells(o['flat'], b['flat']): return 'values %r -> %r' % (o['flat'], b['flat'])
        if o['flat'] and b['kind'] != o['kind']: return 'dtype kind %r -> %r' % (o['kind'], b['kind'])
        for x, y in zip(o['axes'], b['axes']):
            if not labs_eq(x['labels'], y['labels']): return 'labels of %s: %r -> %r' % (x['name'], x['labels'], y['labels'])
            if x['labels'] and (x['kind'] == 'O') != (y['kind'] == 'O'): return 'label kind of %s changed' % x['name']
        if b['attrs'] != o['attrs']: return 'metadata %r -> %r' % (o['attrs'], b['attrs'])
        return None

    @staticmethod
    def coq_case(c, res):
        if 'nested' in c['arr'].get('attrs', {}): return None      # nested dict metadata: oracle only
        return '(%s, %s)' % (cq_arr_in(c['arr']), cq_expect(res, True))

    @staticmethod
    def nontrivial(c, res): return res[0] == 'val' and len(c['arr']['flat']) > 0

# =============================================================== suite 1: netCDF write sequences then read
def gen_nc_array(rng, pool, stats, fmt, dims=None, new_dims=0):
    names = list(pool)
    if dims is None: dims = rng.sample(names, rng.randint(0, min(3, len(names))))
    labels = [list(pool[d][1]) for d in dims]; kinds = [pool[d][0] for d in dims]
    dt = rng.choice(['f', 'f', 'i', 'O'] if fmt == 'NETCDF4' else ['f', 'f', 'i'])
    a = rand_array(rng, dims=list(dims), lens=[len(l) for l in labels], dtype='f' if dt == 'O' else dt, nan_p=0.15 if dt == 'f' else 0)
    a['labels'] = labels; a['axdtype'] = kinds
    if dt == 'O': a['dtype'] = 'O'; a['flat'] = [rng.choice(['p', 'qq', 'r s', '']) for _ in a['flat']]
    a['attrs'] = nc_meta(rng, allow_list=True)
    if dt == 'f' and rng.random() < 0.2:
        # the CF key missing_value: the library also declares it as the variable's fill value (so THAT variable reads back with a
        # _FillValue entry, dropped by norm_meta); no other variable or axis of the file may get one
        a['attrs']['missing_value'] = -999.0; stats['nc_missing_value']['yes'] += 1
    a['axattrs'] = [dict(pool[d][2]) for d in dims]
    stats['nc_var_dtype'][dt] += 1; stats['nc_var_ndim'][len(dims)] += 1
    return a

def gen_pool(rng, fmt, n=None, avoid=()):
    pool = {}
    free = [x for x in DIMPOOL if x not in avoid]
    for d in rng.sample(free, min(len(free), n if n is not None else rng.randint(1, 3))):
        k = rng.choice(['i', 'f', 'O'] if fmt == 'NETCDF4' else ['i', 'f'])
        pool[d] = (k, rand_labels(rng, rng.randint(1, 4), k, rng.choice(['inc', 'dec', 'shuf'])), nc_meta(rng, allow_list=False) if rng.random() < 0.4 else {})
    return pool

class Nc:
    HEADER = ('From DA Require Import Prelude NDArray Array PyRT.\nFrom DA.Model Require Import Value Reshape NcFile.\nOpen Scope string_scope.\n')
    RUNNER = 'nccase_ok'
    SHOW = 'nccase_show'

    @staticmethod
    def generate(rng, n, tier, stats):
        cases = []
        while len(cases) < n:
            fmt = rng.choice(['NETCDF4', 'NETCDF4', 'NETCDF3_CLASSIC'])
            pool = gen_pool(rng, fmt)
            steps = []; names = []; dims_in_file = set()
            nsteps = rng.randint(1, 4 if tier == 'quick' else 7)
            for si in range(nsteps):
                kind = rng.choice(['write_ds', 'write_ds', 'append_var', 'handle_set']) if si else rng.choice(['write_ds', 'write_ds', 'write_ds', 'append_var'])
                stats['nc_step'][kind + ('/first' if si == 0 else '')] += 1
                if kind == 'write_ds':
                    # (re)writes the whole file (mode 'w'), or appends a dataset's variables (mode 'a')
                    mode = 'w' if si == 0 or rng.random() < 0.4 else 'a'
                    if mode == 'w': names = []
                    if mode == 'w' and rng.random() < 0.5: pool = gen_pool(rng, fmt)
                    keys = [k for k in ['a', 'b', 'c', 'v', 'k', 'p', 'q'] if k not in names and k not in pool][:rng.randint(0 if mode == 'w' else 1, 3)]
                    vars_ = [[k, gen_nc_array(rng, pool, stats, fmt)] for k in keys]
                    if mode == 'a' and rng.random() < 0.3:       # a dataset bringing a new dimension
                        extra = gen_pool(rng, fmt, 1, avoid=list(pool)); pool.update(extra)
                        vars_.append(['n%d' % si, gen_nc_array(rng, pool, stats, fmt, dims=list(extra))])
                    names += [k for k, _ in vars_]
                    if mode == 'w': dims_in_file = set()
                    if mode == 'a' and rng.random() < 0.5:
                        for k_, a_ in vars_:
                            a_['axattrs'] = [dict(at, comment='appended') if d in dims_in_file else at for d, at in zip(a_['dims'], a_['axattrs'])]
                    for k_, a_ in vars_: dims_in_file.update(a_['dims'])
                    steps.append(['write_ds', {'vars': vars_, 'attrs': nc_meta(rng)}, mode])
                else:
                    name = [k for k in ['a', 'b', 'c', 'v', 'k', 'p', 'q', 'r', 's', 'g', 'h'] if k not in names and k not in pool][0]
                    if rng.random() < 0.3:
                        extra = gen_pool(rng, fmt, 1, avoid=list(pool)); pool.update(extra)
                    arr = gen_nc_array(rng, pool, stats, fmt)
                    if rng.random() < 0.5 and arr['dims']:
                        # the appended array carries its own axis metadata: what the file already holds for an existing dimension must stay
                        arr['axattrs'] = [dict(nc_meta(rng, allow_list=False), comment='appended') if d in dims_in_file else at for d, at in zip(arr['dims'], arr['axattrs'])]
                        stats['nc_append_own_axis_meta'][str(any(d in dims_in_file for d in arr['dims']))] += 1
                    names.append(name)
                    if kind == 'append_var': steps.append(['append_var', name, arr, 'a+' if si == 0 or rng.random() < 0.5 else 'a'])
                    else: steps.append(['handle_set', name, arr])
                    dims_in_file.update(arr['dims'])
            cases.append({'fmt': fmt, 'steps': steps})
        return cases

    @staticmethod
    def execute(c):
        D = da()
        tmp = tempfile.mkdtemp(prefix='c19_')
        f = os.path.join(tmp, 'x.nc')
        c['_changed'] = None
        written = {}; ds_attrs = {}; dim_order = []
        try:
            def go():
                for st in c['steps']:
                    if st[0] == 'write_ds':
                        ds = D.Dataset()
                        for k, a in st[1]['vars']: ds[k] = mk_array(a)
                        ds.attrs.update(st[1]['attrs'])
                        before = json.dumps(obs_dataset(ds), sort_keys=True, default=str)
                        ds.write_nc(f, mode=st[2], format=c['fmt'])
                        if before != json.dumps(obs_dataset(ds), sort_keys=True, default=str): c['_changed'] = 'Dataset.write_nc changed the in-memory dataset'
                    else:
                        a = mk_array(st[2])
                        before = json.dumps(obs_array(a), sort_keys=True, default=str)
                        if st[0] == 'append_var': a.write_nc(f, st[1], mode=st[3], format=c['fmt'])
                        else:
                            h = D.open_nc(f, mode='a')
                            try: h[st[1]] = a
                            finally: h.close()
                        if before != json.dumps(obs_array(a), sort_keys=True, default=str): c['_changed'] = '%s changed the in-memory array' % st[0]
                return D.read_nc(f)
            with warnings.catch_warnings():
                warnings.simplefilter('ignore')
                try:
                    r = go()
                    res = ('val', {'t': 'ds', 'v': obs_dataset(r)})
                    c['_single'] = {}
                    for k in r.keys():
                        c['_single'][k] = obs_array(D.read_nc(f, k))
                except Unsupported: raise
                except Exception as e:
                    res = ('err', type(e).__name__ if type(e).__name__ in EXN else 'OtherError'); c['_errmsg'] = '%s: %s' % (type(e).__name__, e)
        finally:
            shutil.rmtree(tmp, ignore_errors=True)
        return res

    @staticmethod
    def expected(c):
        """what the property says the file must give back: every variable as it was written, dims in order of first creation,
        the dataset metadata of the Dataset writes (updated in order)"""
        vars_ = {}; order = []; dims = []; axes = {}; attrs = {}
        def add_arr(name, a):
            for d, l, k, at in zip(a['dims'], a['labels'], a['axdtype'], a.get('axattrs') or [{}] * len(a['dims'])):
                if d not in dims: dims.append(d); axes[d] = {'name': d, 'labels': l, 'kind': k, 'attrs': norm_meta(at)}
            if name not in order: order.append(name)
            vars_[name] = a
        for st in c['steps']:
            if st[0] == 'write_ds':
                if st[2] == 'w': vars_.clear(); order[:] = []; dims[:] = []; axes.clear(); attrs = {}
                # Dataset axes come first, in the order of the dataset
                seen = []
                for k, a in st[1]['vars']:
                    for d in a['dims']:
                        if d not in seen: seen.append(d)
                for k, a in st[1]['vars']: pass
                dsdims = dataset_dims(st[1])
                for d in dsdims:
                    if d not in dims:
                        for k, a in st[1]['vars']:
                            if d in a['dims']:
                                i = a['dims'].index(d); dims.append(d)
                                axes[d] = {'name': d, 'labels': a['labels'][i], 'kind': a['axdtype'][i], 'attrs': norm_meta((a.get('axattrs') or [{}] * len(a['dims']))[i])}
                                break
                for k, a in st[1]['vars']: add_arr(k, a)
                attrs.update(norm_meta(st[1]['attrs']))
            else: add_arr(st[1], st[2])
        return {'dims': dims, 'axes': axes, 'vars': vars_, 'order': order, 'attrs': attrs}

    @staticmethod
    def oracle(c, res):
        if c.get('_changed'): return c['_changed']
        if res[0] == 'err': return 'write sequence / read_nc raised %s' % c.get('_errmsg', res[1])
        e = Nc.expected(c); r = res[1]['v']
        got_vars = dict((k, v) for k, v in r['vars'])
        for k in e['order']:
            if k not in got_vars: return 'variable %r is missing from the file read back' % k
            a = e['vars'][k]; g = got_vars[k]
            if g['dims'] != a['dims']: return 'variable %r: dims %r instead of %r' % (k, g['dims'], a['dims'])
            want = [{'nan': 1} if (isinstance(v, float) and v != v) else v for v in a['flat']]
            if not same_cells(want, g['flat']): return 'variable %r: values %r instead of %r' % (k, g['flat'], want)
            wk = {'f': 'f', 'i': 'i', 'O': 'O'}[a['dtype']]
            if a['flat'] and g['kind'] != wk: return 'variable %r: dtype kind %r instead of %r' % (k, g['kind'], wk)
            for gx, l, kk in zip(g['axes'], a['labels'], a['axdtype']):
                if not labs_eq(gx['labels'], l): return 'variable %r: labels of %s are %r instead of %r' % (k, gx['name'], gx['labels'], l)
                if l and (kk == 'O') != (gx['kind'] == 'O'): return 'variable %r: label kind of %s' % (k, gx['name'])
            if g['attrs'] != norm_meta(a['attrs']): return 'variable %r: metadata %r instead of %r' % (k, g['attrs'], norm_meta(a['attrs']))
            s = c['_single'].get(k)
            if s is None or json.dumps(s, sort_keys=True, default=str) != json.dumps(g, sort_keys=True, default=str):
                return 'read_nc(f, %r) differs from read_nc(f)[%r]' % (k, k)
        if sorted(got_vars) != sorted(e['order']): return 'variables %r instead of %r' % (sorted(got_vars), sorted(e['order']))
        if r['dims'] != [d for d in e['dims']]: return 'dimension order %r instead of %r' % (r['dims'], e['dims'])
        for gx in r['axes']:
            ex = e['axes'][gx['name']]
            if not labs_eq(gx['labels'], ex['labels']): return 'axis %s: labels %r instead of %r' % (gx['name'], gx['labels'], ex['labels'])
            if gx['attrs'] != ex['attrs']: return 'axis %s: metadata %r instead of %r' % (gx['name'], gx['attrs'], ex['attrs'])
        if r['attrs'] != e['attrs']: return 'dataset metadata %r instead of %r' % (r['attrs'], e['attrs'])
        return None

    @staticmethod
    def coq_case(c, res):
        def arr_obs_term(o):
            # the observed array as a Coq darr: axes, values, metadata (metadata numbers are compared numerically)
            axs = cq_list(['(Ax %s %s %s %s [])' % (cq_str(x['name']), cq_kind(x['kind']), ops.cq_labs(x['labels']), cq_meta(x['attrs'])) for x in o['axes']])
            return '(Arr %s %s %s %s %s)' % (axs, cq_list(['%d' % n for n in o['shape']]), cq_kind(o['kind']), cq_list([cq_cell(v) for v in o['flat']]), cq_meta(o['attrs']))
        steps = []
        for st in c['steps']:
            if st[0] == 'write_ds':
                steps.append('(NWriteDs %s %s %s)' % (cq_list(['(%s, %s)' % (cq_str(k), cq_arr_in(a)) for k, a in st[1]['vars']]), cq_meta(st[1]['attrs']), 'true' if st[2] == 'w' else 'false'))
            else:
                steps.append('(NWriteVar %s %s)' % (cq_str(st[1]), cq_arr_in(st[2])))
        if res[0] == 'err': e = 'None'
        else:
            r = res[1]['v']
            axs = cq_list(['(Ax %s %s %s %s [])' % (cq_str(x['name']), cq_kind(x['kind']), ops.cq_labs(x['labels']), cq_meta(x['attrs'])) for x in r['axes']])
            e = '(Some {| p_axes := %s; p_vars := %s; p_attrs := %s |})' % (axs, cq_list(['(%s, %s)' % (cq_str(k), arr_obs_term(o)) for k, o in r['vars']]), cq_meta(r['attrs']))
        return '(%s, %s, %s)' % ('true' if c['fmt'].startswith('NETCDF3') else 'false', cq_list(steps), e)

    @staticmethod
    def nontrivial(c, res): return res[0] == 'val' and len(res[1]['v']['vars']) >= 1

def dataset_dims(dsj):
    """the order of a Dataset's axes: order of first appearance over the variables in insertion order"""
    out = []
    for k, a in dsj['vars']:
        for d in a['dims']:
            if d not in out: out.append(d)
    return out

MODEL_TARGETS = ('Model/Json.vo', 'Model/NcFile.vo')
SUITES = [Json, Nc]
RULE = 'two suites: JSON round trips of arrays; netCDF write sequences (Dataset.write_nc w/a, DimArray.write_nc a/a+, open_nc handle assignment) followed by read_nc, through the netCDF4 stand-in'
def generate(rng, n, tier, stats): raise NotImplementedError
