"""C15 - operations do not modify their operands; copies are independent (two suites)."""
import importlib, copy, json
from common import *
from gen import *
from oracle_util import *
import ops
import numpy as np
import copy

ID = 'C15'
N_QUICK = 700
N_THOROUGH = 7000

def deep_snap(a):
    """everything C15 says must not change: values bytes, dtype, dims, labels (+dtype), axis attrs, attrs"""
    out = [a.values.tobytes() if a.values.dtype != object else repr(a.values.tolist()), a.values.dtype.str, tuple(a.values.shape), tuple(a.dims)]
    for ax in a.axes:
        v = ax.values
        out.append((repr(v.tolist()), v.dtype.str, ax.name, json.dumps(ax.attrs, sort_keys=True, default=repr)))
    out.append(json.dumps(a.attrs, sort_keys=True, default=repr))
    return out

def _stats():
    import dimarray.lib.stats as st
    return st

def snap_diff(b, a):
    names = ['values', 'dtype', 'shape', 'dims']
    for k, (x, y) in enumerate(zip(b, a)):
        if x != y:
            if k < 4: return names[k]
            if k == len(b) - 1: return 'metadata'
            for j, nm in enumerate(['labels', 'label dtype', 'axis name', 'axis metadata']):
                if x[j] != y[j]: return '%s of axis %d (%s -> %s)' % (nm, k - 4, x[j], y[j])
    return None

# =============================================================== suite 0: operands of every operation of the other properties
SOURCES = ['c01', 'c02', 'c03', 'c04', 'c06', 'c07', 'c08', 'c09', 'c10', 'c11', 'c12', 'c17', 'c18']
class Operands:
    @staticmethod
    def generate(rng, n, tier, stats):
        cases = []
        per = max(1, n // (len(SOURCES) + 1))
        for src in SOURCES:
            m = importlib.import_module('props.' + src)
            sub = Counter()
            st = new_stats()
            for c in m.generate(rng, per, tier, st):
                if 'ins' not in c or 'ops' not in c: continue
                if any(o[0] in ('rename_axis', 'set_label', 'set_dims', 'set_axis') for o in c['ops']): continue    # in-place edits of the operand
                stats['operand_source'][src] += 1
                for o in c['ops']: stats['operand_op'][o[0]] += 1
                cases.append({'src': src, 'ins': c['ins'], 'ops': c['ops']})
        m = importlib.import_module('props.c14')
        for c in m.generate(rng, per, tier, new_stats()):
            stats['operand_source']['c14'] += 1; stats['operand_op']['dataset:' + c['op'][0]] += 1
            cases.append({'src': 'c14', 'inputs': c['inputs'], 'op': c['op']})
        return cases

    @staticmethod
    def execute(c):
        D = da()
        if c['src'] == 'c14':
            c14 = importlib.import_module('props.c14')
            dss = [c14.mk_dataset(j) for j in c['inputs']]
            objs = [(('dataset %d variable %r' % (i, k)), dict.__getitem__(ds, k)) for i, ds in enumerate(dss) for k in ds.keys()]
            meta_before = [json.dumps(ds.attrs, sort_keys=True, default=repr) for ds in dss]
            dims_before = [tuple(ds.dims) for ds in dss]
            run = lambda: c14.run_op(dss, c['op'])
        else:
            ins = [mk_array(j) for j in c['ins']]
            objs = [('operand %d' % i, x) for i, x in enumerate(ins)]
            # a live alias sharing the Axis objects of operand 0 (transpose keeps them)
            if ins and ins[0].ndim >= 1:
                try: objs.append(('transposed alias of operand 0', ins[0].transpose(*ins[0].dims[::-1])))
                except Exception: pass
            derived = [None]
            def run():
                r = ops.run_ops(ins, c['ops'])
                # further non-in-place operations on the same operands: serialisation, Dataset construction and use, comparison, unary ops
                for x in ins:
                    for f in (lambda: x.to_json(), lambda: x.to_jsondict(), lambda: D.Dataset({'v': x}), lambda: D.Dataset({'v': x}).to_array(),
                              # a Dataset built from the operand holds copies of its axes: relabelling / renaming the dataset's axes,
                              # on a copy (inplace=False) or in place, leaves the operand alone
                              lambda: [D.Dataset({'v': x}).set_axis(list(range(100, 100 + ax.size)), axis=ax.name, inplace=False) for ax in x.axes],
                              lambda: D.Dataset({'v': x}).rename_axes(dict((ax.name, ax.name + '_r') for ax in x.axes), inplace=False),
                              lambda: [D.Dataset({'v': x}).set_axis(list(range(100, 100 + ax.size)), axis=ax.name, inplace=True) for ax in x.axes],
                              lambda: D.Dataset({'v': x}).rename_axes(dict((ax.name, ax.name + '_r') for ax in x.axes), inplace=True),
                              lambda: (lambda ds: ds.axes[0].__setitem__(0, ds.axes[0].values[-1]))(D.Dataset({'v': x})) if x.ndim else None,
                              lambda: (lambda ds: setattr(ds.axes[0], 'name', 'renamed_in_ds'))(D.Dataset({'v': x})) if x.ndim else None,
                              lambda: (lambda ds: ds.axes[0].attrs.update(verif_added=3))(D.Dataset({'v': x})) if x.ndim else None,
                              # building a new array from the operand with metadata keywords (new key, and an existing key overwritten)
                              lambda: D.DimArray(x, verif_added=1), lambda: D.array(x, verif_added=2),
                              lambda: D.DimArray(x, **dict((k, 'overwritten') for k in list(x.attrs)[:1] if isinstance(k, str) and k.isidentifier())),
                              lambda: x == x, lambda: -x, lambda: abs(x), lambda: repr(x), lambda: x.to_pandas() if x.ndim in (1, 2) else None,
                              lambda: x.sort_axis(axis=0) if x.ndim else None, lambda: D.align([x, x.ix[::-1] if x.ndim else x], sort=True),
                              # aligning with partners that are empty / reversed / disjoint along each dimension, sorted and not
                              lambda: [D.align([x, x.take_axis([], axis=d, indexing='position')], sort=srt, join=j) for d in x.dims for srt in (True, False) for j in ('outer', 'inner')],
                              lambda: [D.align([x.take_axis([], axis=d, indexing='position'), x], sort=True) for d in x.dims],
                              lambda: D.stack([x, x.ix[::-1]], axis='stacked', keys=[1, 2], align=True, sort=True) if x.ndim else None,
                              # reindexing onto labels of the same length that sit at their own positions, one of them absent
                              lambda: [x.reindex_axis([l if j != k else (l - 0.25 if not isinstance(l, str) else l + '_') for j, l in enumerate(ax.values.tolist())], axis=ax.name, **kw)
                                       for ax in x.axes for k in range(ax.size) for kw in ({}, {'method': 'left'})],
                              lambda: D.concatenate([x, x], axis=0, align=True, sort=True) if x.ndim > 1 else None,
                              # percentiles / quantiles along every axis, by position and by name (results share the other Axis objects)
                              lambda: [f_(x, q, axis=r_) for r_ in list(range(x.ndim)) + list(x.dims)
                                       for f_, q in ((_stats().percentile, [25, 90]), (_stats().quantile, [0.25, 0.9]), (_stats().percentile, 50))]
                                      if x.values.dtype.kind in 'if' else None):
                        try: f()
                        except Exception: pass
                    # operations on an array DERIVED from the operand (not among the snapshots above): n-d boolean indexing gives one
                    # plain Axis named 'd0,d1,...' (labels = tuples), which reshape must not rename in its operand
                    if x.ndim >= 2 and derived[0] is None:
                        try:
                            b = x[x == x]; sb = deep_snap(b)
                            for nd in ((b.dims[0], 'new'), ('new', b.dims[0])):
                                try: b.reshape(*nd)
                                except Exception: pass
                            d = snap_diff(sb, deep_snap(b))
                            if d: derived[0] = 'the result of n-d boolean indexing (one plain axis named %r) after reshape (non-in-place): %s changed' % (sb[3][0], d)
                        except Exception: pass
                return r
        for _, x in objs:
            for ax in x.axes:
                try: ax.is_monotonic()
                except Exception: pass
        before = [deep_snap(x) for _, x in objs]
        res = run_impl(lambda: (run(), None)[1])
        c['_changed'] = None
        for (nm, x), b in zip(objs, before):
            d = snap_diff(b, deep_snap(x))
            if d: c['_changed'] = '%s: %s changed' % (nm, d); break
        if c['_changed'] is None and c['src'] != 'c14' and derived[0]: c['_changed'] = derived[0]
        if c['src'] == 'c14' and c['_changed'] is None:
            for i, ds in enumerate(dss):
                if json.dumps(ds.attrs, sort_keys=True, default=repr) != meta_before[i] or tuple(ds.dims) != dims_before[i]:
                    c['_changed'] = 'dataset %d: metadata or dims changed' % i
        return res

    @staticmethod
    def coq_case(c, res): return None      # the model is a pure function of its inputs; this suite observes the implementation

    @staticmethod
    def oracle(c, res):
        if c.get('_changed'):
            what = c['op'][0] if c['src'] == 'c14' else '+'.join(o[0] for o in c['ops'])
            return 'after %s (non-in-place), %s' % (what, c['_changed'])
        return None

    @staticmethod
    def nontrivial(c, res): return True

# =============================================================== suite 1: what a result shares with its operand; copy() is deep
def observe(x):
    return copy.deepcopy(_observe(x))
def _observe(x):
    return {'shape': list(x.shape), 'flat': [cell_json(v) for v in x.values.ravel().tolist()],
            'axes': [{'name': ax.name, 'labels': [lab_json(l) for l in ax.values], 'attrs': meta_json(ax.attrs)} for ax in x.axes],
            'attrs': meta_json(x.attrs)}

def cell_json(v):
    if isinstance(v, float) and v != v: return {'nan': 1}
    return v

class Sharing:
    HEADER = ('From DA Require Import Prelude NDArray Array PyRT.\nFrom DA.Model Require Import Value Reshape Indexing Align Transform Sharing.\nOpen Scope string_scope.\n')
    RUNNER = 'scase_run'
    SHOW = 'scase_show'

    @staticmethod
    def generate(rng, n, tier, stats):
        cases = []
        while len(cases) < n:
            nd = rng.choice([2, 2, 3])
            a = rand_array(rng, ndim=nd, minlen=1, maxlen=3, dtype='f', kinds=('i', 'f', 'O'), attrs=True)
            a.setdefault('attrs', {})['levels'] = [1.0, 2.5]
            sh = [len(l) for l in a['labels']]
            kind = rng.choice(['copy', 'copy', 'copy', 'transpose', 'full', 'mul', 'slice0', 'take0', 'index0', 'cumsum0', 'newaxis0', 'sum0'])
            if kind == 'transpose': p = list(range(nd)); rng.shuffle(p); op = ['transpose', p]
            elif kind == 'mul': op = ['mul', rng.choice([2, 0.5])]
            elif kind == 'slice0': lo = rng.randint(0, sh[0] - 1); op = ['slice0', lo, rng.randint(lo + 1, sh[0])]
            elif kind == 'take0': op = ['take0', [rng.randrange(sh[0]) for _ in range(rng.randint(1, 3))]]
            elif kind == 'index0': op = ['index0', rng.randrange(sh[0])]
            elif kind == 'newaxis0': op = ['newaxis0', 'new']
            else: op = [kind]
            stats['sharing_op'][kind] += 1
            # result geometry, to aim the writes
            rsh = {'transpose': lambda: [sh[j] for j in op[1]], 'slice0': lambda: [op[2] - op[1]] + sh[1:], 'take0': lambda: [len(op[1])] + sh[1:],
                   'index0': lambda: sh[1:], 'newaxis0': lambda: [1] + sh, 'sum0': lambda: sh[1:]}.get(kind, lambda: sh)()
            writes = []
            for _ in range(rng.randint(1, 6 if tier == 'quick' else 12)):
                through_r = rng.random() < 0.6
                tsh = rsh if through_r else sh
                w = rng.choice(['val', 'val', 'lab', 'lab', 'name', 'axattr', 'attr'])
                stats['sharing_write'][w + ('/result' if through_r else '/operand')] += 1
                if w == 'val':
                    coord = [rng.randrange(m) for m in tsh]; writes.append([through_r, 'val', coord, rng.choice([-1.5, 99.0, 7.25])])
                elif w == 'attr': writes.append([through_r, 'attr', rng.choice(['units', 'note']), rng.choice(['m', 3, 2.5])])
                else:
                    if not tsh: continue
                    i = rng.randrange(len(tsh))
                    if w == 'lab': writes.append([through_r, 'lab', i, rng.randrange(tsh[i]), None])     # the label is chosen at run time from the axis kind
                    elif w == 'name': writes.append([through_r, 'name', i, 'n%d' % len(writes)])
                    else: writes.append([through_r, 'axattr', i, rng.choice(['units', 'long_name']), rng.choice(['s', 4])])
            cases.append({'arr': a, 'op': op, 'writes': writes})
        return cases

    @staticmethod
    def apply(a, op):
        k = op[0]
        if k == 'copy': return a.copy()
        if k == 'transpose': return a.transpose(*[a.dims[j] for j in op[1]])
        if k == 'full': return a.ix[:]
        if k == 'mul': return a * op[1]
        if k == 'slice0': return a.ix[op[1]:op[2]]
        if k == 'take0': return a.ix[list(op[1])]
        if k == 'index0': return a.ix[op[1]]
        if k == 'cumsum0': return a.cumsum(axis=0)
        if k == 'newaxis0': return a.newaxis(op[1], pos=0)
        if k == 'sum0': return a.sum(axis=0)
        raise ValueError(k)

    @staticmethod
    def execute(c):
        D = da()
        a = mk_array(c['arr'])
        c['_indep'] = None
        def go():
            r = Sharing.apply(a, c['op'])
            if not isinstance(r, D.DimArray): raise Unsupported('scalar result')
            trace = [{'a': observe(a), 'r': observe(r)}]
            a0 = observe(a); r0 = observe(r)
            only_r, only_a = True, True
            for w in c['writes']:
                t = r if w[0] else a
                if w[1] == 'val': t.ix[tuple(w[2])] = w[3]
                elif w[1] == 'lab':
                    ax = t.axes[w[2]]; cur = ax.values[w[3]]
                    if w[4] is None:
                        w[4] = (cur + 100 if not isinstance(cur, str) else cur + 'q') if cur is not None else 'zz'
                        w[4] = lab_json(w[4])
                    ax[w[3]] = w[4]
                elif w[1] == 'name': t.axes[w[2]].name = w[3]
                elif w[1] == 'axattr': t.axes[w[2]].attrs[w[3]] = w[4]
                elif w[1] == 'attr': t.attrs[w[2]] = w[3]
                trace.append({'a': observe(a), 'r': observe(r)})
                if w[0]: only_a = False
                else: only_r = False
            # copy(): the two objects never influence each other, mutable metadata values included
            if c['op'][0] == 'copy':
                oa, orr = observe(a), observe(r)
                if only_r and oa != a0: c['_indep'] = 'writes through the copy changed the original'
                if only_a and orr != r0: c['_indep'] = 'writes through the original changed the copy'
                r.attrs['levels'].append(9.0)
                for ax in r.axes:
                    for v in ax.attrs.values():
                        if isinstance(v, list): v.append(9.0)
                if observe(a) != oa: c['_indep'] = 'mutating a metadata value of the copy in place changed the original'
                # ... also when the mutable value sits INSIDE another metadata value (a dict holding a list, a list of lists)
                nested = {'runs': [1, 2], 'deep': [[1], [2]]}
                a.attrs['verif_nested'] = copy.deepcopy(nested)
                b2 = a.copy()
                b2.attrs['verif_nested']['runs'].append(3); b2.attrs['verif_nested']['deep'][0].append(9)
                if a.attrs['verif_nested'] != nested: c['_indep'] = 'mutating a NESTED metadata value of the copy in place changed the original'
                a.attrs['verif_nested']['runs'].append(4)
                if b2.attrs['verif_nested']['runs'] != [1, 2, 3]: c['_indep'] = 'mutating a NESTED metadata value of the original in place changed the copy'
            return trace
        with warnings.catch_warnings():
            warnings.simplefilter('ignore')
            with np.errstate(all='ignore'):
                trace = go()
        return ('val', {'t': 'trace', 'v': trace})

    @staticmethod
    def coq_case(c, res):
        def cq_obs(o):
            axs = cq_list(['{| o_name := %s; o_lab := %s; o_attrs := %s |}' % (cq_str(x['name']), ops.cq_labs(x['labels']), cq_meta(x['attrs'])) for x in o['axes']])
            return '(%s, %s, %s, %s)' % (cq_list(['%d' % s for s in o['shape']]), cq_list([cq_cell(v) for v in o['flat']]), axs, cq_meta(o['attrs']))
        op = c['op']; k = op[0]
        sop = {'copy': lambda: 'SCopy', 'transpose': lambda: '(STranspose %s)' % cq_list(['%d' % j for j in op[1]]), 'full': lambda: 'SFull',
               'mul': lambda: '(SScalarMul %s)' % cq_q(op[1]), 'slice0': lambda: '(SSlice0 %d %d)' % (op[1], op[2]),
               'take0': lambda: '(STake0 %s)' % cq_list(['%d' % j for j in op[1]]), 'index0': lambda: '(SIndex0 %d)' % op[1],
               'cumsum0': lambda: 'SCumsum0', 'newaxis0': lambda: '(SNewaxis0 %s)' % cq_str(op[1]), 'sum0': lambda: 'SSum0'}[k]()
        tr = res[1]['v']
        steps = []
        a = mk_array(c['arr']); r = Sharing.apply(a, op)
        rshape = list(r.shape); ashape = list(a.shape)
        for w, t in zip(c['writes'], tr[1:]):
            sh = rshape if w[0] else ashape
            if w[1] == 'val':
                pos = 0
                for m, x in zip(sh, w[2]): pos = pos * m + x
                wop = '(WVal %d %s)' % (pos, cq_cell(w[3]))
            elif w[1] == 'lab': wop = '(WLab %d %d %s)' % (w[2], w[3], cq_label(w[4]))
            elif w[1] == 'name': wop = '(WName %d %s)' % (w[2], cq_str(w[3]))
            elif w[1] == 'axattr': wop = '(WAxAttr %d %s %s)' % (w[2], cq_str(w[3]), cq_mval(w[4]))
            else: wop = '(WAttr %s %s)' % (cq_str(w[2]), cq_mval(w[3]))
            steps.append('(%s, %s, %s, %s)' % ('true' if w[0] else 'false', wop, cq_obs(t['a']), cq_obs(t['r'])))
        return '(%s, %s, %s, %s, %s)' % (cq_arr_in(c['arr']), sop, cq_list(steps), cq_obs(tr[0]['a']), cq_obs(tr[0]['r']))

    @staticmethod
    def oracle(c, res): return c.get('_indep')

    @staticmethod
    def nontrivial(c, res): return len(c['writes']) >= 2

MODEL_TARGETS = ('Model/Sharing.vo',)
SUITES = [Operands, Sharing]
RULE = ('suite 0: every case generated for C01-C04, C06-C12, C14, C17, C18 (all operations and argument combinations of those properties, '
        'unsorted axes, metadata with list values) is run with a deep snapshot (values bytes, dtype, dims, labels and their dtype, axis '
        'metadata, metadata) of every operand - and of a transposed alias sharing operand 0\'s Axis objects - taken before and compared after; '
        'suite 1: one operation from the sharing alphabet (copy, transpose, full slice, scalar product, positional slice / list / scalar index, '
        'cumsum, newaxis, sum) followed by 1-6 (thorough: 1-12) in-place writes (value, label, axis name, axis metadata, metadata) through the '
        'result or the operand; both objects are observed after every write and compared with the heap model of Model/Sharing.v; for copy() '
        'the oracle additionally mutates list-valued metadata of the copy in place')
def generate(rng, n, tier, stats): raise NotImplementedError
