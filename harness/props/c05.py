"""C05 - every produced array is well-formed and history-independent (two suites: programs, constructors)."""
import itertools, copy, json
from common import *
from gen import *
from oracle_util import *
import ops
import numpy as np

ID = 'C05'
N_QUICK = 660
N_THOROUGH = 6600

# ---------------------------------------------------------------- monitor: every DimArray the library constructs
_MON = {'on': False, 'bad': []}
def install_monitor():
    D = da()
    if getattr(D.DimArray, '_verif_monitored', False): return
    orig = D.DimArray.__init__
    def init(self, *a, **k):
        orig(self, *a, **k)
        if _MON['on']:
            try: msg = ill_formed(self)
            except Exception as e: msg = 'monitor crashed: %r' % e
            if msg: _MON['bad'].append(msg)
    D.DimArray.__init__ = init
    D.DimArray._verif_monitored = True

def ill_formed(x):
    try: return _ill_formed(x)
    except Exception as e: return 'the array cannot report its axes / labels: %s: %s' % (type(e).__name__, e)

def _ill_formed(x):
    D = da()
    axes = x.axes; v = x.values
    if len(axes) != v.ndim: return 'an array with %d axes for %d dimensions' % (len(axes), v.ndim)
    names = []
    for ax, n in zip(axes, v.shape):
        if np.ndim(ax.values) != 1: return 'axis %r is not one-dimensional' % ax.name
        if ax.values.shape[0] != n: return 'axis %r has %d labels for a dimension of size %d' % (ax.name, ax.values.shape[0], n)
        if not isinstance(ax.name, str) or ax.name == '': return 'axis name %r is not a non-empty string' % (ax.name,)
        names.append(ax.name)
    if len(set(names)) != len(names): return 'duplicate dimension names %r' % (names,)
    return None

# =============================================================== suite 0: programs
class Programs:
    RUNNER = 'run_case_approx'      # programs contain means: compared within 1e-9 relative (Value.cell_close)
    @staticmethod
    def random_op(rng, a, stats, force=None):
        """an operation applicable to the array whose input JSON is a"""
        dims = a['dims']; nd = len(dims)
        fams = ['transpose', 'newaxis', 'query', 'query', 'dataset', 'scalar_op', 'setitem']
        if nd and all(len(l) for l in a['labels']): fams += ['fork', 'fork']
        if nd: fams += ['swapaxes', 'get', 'get', 'reduce', 'cum', 'diff', 'sort_axis', 'reindex', 'take_axis', 'rename', 'set_label',
                        'set_dims', 'set_axis', 'flatten', 'squeeze', 'fillna', 'dropna', 'binop', 'align']
        f = force or rng.choice(fams)
        if not force and nd >= 2 and any(len(l) == 0 for l in a['labels']) and rng.random() < 0.4: f = 'flatten'    # grouped axes without labels
        if not force: stats['program_op'][f] += 1
        i = rng.randrange(nd) if nd else 0
        d = dims[i] if nd else None
        labs = a['labels'][i] if nd else []
        fresh = 'n%d' % rng.randrange(1000)
        if f == 'fork':
            how = rng.choice(['slice', 'slice1', 'labelslice', 'diff', 'cumsum', 'mul', 'take_list', 'reindex_same', 'dropna', 'sort_axis', 'copy',
                              # results whose axes are BUILT FROM the array's labels by another object (repeat / interpolation / reindexing onto it)
                              'broadcast_scalar', 'broadcast_reduced', 'interp_like', 'reindex_like', 'broadcast_scalar', 'interp_like',
                              # ... or from the array's own AXIS OBJECTS handed over as labels
                              'interp_axis_obj', 'ctor_axis_pairs', 'reindex_axis_obj'])
            if rng.random() < 0.5:
                how = rng.choice(['broadcast_scalar', 'broadcast_reduced', 'interp_like', 'interp_axis_obj', 'ctor_axis_pairs', 'interp_axis_obj', 'ctor_axis_pairs'])
            stats['fork_how'][how] += 1
            j = rng.randrange(nd) if how not in ('interp_axis_obj', 'reindex_axis_obj') else 0
            l0 = a['labels'][j][0]
            return ['fork_edit', how, j, (l0 + 1000) if isinstance(l0, (int, float)) and not isinstance(l0, bool) else 'zz']
        if f == 'transpose':
            p = list(range(nd)); rng.shuffle(p); return ['transpose', [dims[j] for j in p]] if nd else ['T']
        if f == 'newaxis': return ['newaxis', fresh if (nd == 0 or rng.random() < 0.85) else rng.choice(dims), None, None, rng.randint(0, nd)]    # (a name the array has is refused)
        if f == 'query': return ['query', rng.choice(['monotonic', 'repr', 'labels', 'size', 'copy'])]
        if f == 'dataset': return ['dataset_roundtrip', 'k']
        if f == 'scalar_op': return ['scalar_op', rng.choice(['+', '*', '-']), rng.choice([2, 0.5]), rng.random() < 0.5]
        if f == 'swapaxes': return ['swapaxes', rng.randrange(nd), rng.randrange(nd)]
        if f == 'get':
            if not labs: return ['query', 'repr']
            ix = rng.choice([{'s': rng.choice(labs)}, {'l': rng.sample(labs, rng.randint(1, len(labs)))}, {'m': [rng.random() < 0.6 for _ in labs]}])
            return ['get', 'take', {'dict': [[d, ix]]}, None, False, 'label']
        if f == 'setitem':
            if not nd or not labs: return ['query', 'repr']
            return ['put', 'put', {'dict': [[d, {'s': rng.choice(labs)}]]}, None, {'scalar': 7.5}, True, rng.random() < 0.5, 'label']
        if f == 'reduce': return ['reduce', rng.choice(['sum', 'mean', 'max']), False, d]
        if f == 'cum': return ['cum', False, False, d, False]
        if f == 'diff': return ['diff', d, rng.choice(['backward', 'forward']), rng.random() < 0.3, 1]
        if f == 'sort_axis': return ['sort_axis', d]
        if f == 'reindex':
            new = list(labs); rng.shuffle(new)
            if a['axdtype'][i] != 'O' and labs: new = new[:-1] + [max(labs) + 7]
            return ['reindex', new, a['axdtype'][i], d, None, False, None, 'array']
        if f == 'take_axis': return ['take_axis', [rng.randrange(len(labs)) for _ in range(rng.randint(1, 3))], d, 'position'] if labs else ['query', 'repr']
        if f == 'rename':
            if nd > 1 and rng.random() < 0.1: return ['rename_axis', d if rng.random() < 0.5 else i, dims[(i + 1) % nd]]   # to a sibling's name
            return ['rename_axis', d if rng.random() < 0.5 else i, fresh]
        if f == 'set_label':
            if not labs: return ['query', 'repr']
            j = rng.randrange(len(labs)); cur = labs[j]
            others = [x for k_, x in enumerate(labs) if k_ != j]
            new = (cur + 1000) if not isinstance(cur, str) else cur + 'z'
            return ['set_label', d, j, new]
        if f == 'set_axis':
            if ',' in d or any(isinstance(x, (list, tuple)) for x in labs): return ['query', 'repr']      # (grouped axes are not relabelled)
            kk = rng.choice(['i', 'f', 'O'])
            new = rand_labels(rng, len(labs) if rng.random() < 0.92 else len(labs) + 1, kk, 'shuf')
            u = rng.random()
            # the new name: none, a fresh one, the axis' own, or (refused) the name of another dimension
            nm = None if u < 0.4 else fresh if u < 0.7 else d if u < 0.8 else dims[(i + 1) % nd] if nd > 1 else None
            return ['set_axis', d if rng.random() < 0.5 else i, new, kk, nm, rng.random() < 0.5]
        if f == 'set_dims':
            u = rng.random()
            if nd >= 1 and rng.random() < 0.4:
                # the mapping form a.dims = {old: new}: the names that result must be distinct as well
                if u < 0.3 or nd == 1: pairs = [[d, fresh]]
                elif u < 0.55: pairs = [[dims[i], dims[(i + 1) % nd]]]                               # onto a sibling's name: refused
                elif u < 0.75: pairs = [[dims[i], fresh], [dims[(i + 1) % nd], fresh]]               # two dimensions onto one name: refused
                else: pairs = [[dims[i], dims[(i + 1) % nd]], [dims[(i + 1) % nd], dims[i]]]         # a swap
                m = dict((o_, n_) for o_, n_ in pairs)
                return ['set_dims', [m.get(x, x) for x in dims], pairs]
            if u < 0.4: return ['set_dims', ['m%d%d' % (rng.randrange(100), k_) for k_ in range(nd)]]
            if u < 0.7: nm = list(dims); rng.shuffle(nm); return ['set_dims', nm]              # a permutation of the current names
            if u < 0.85: return ['set_dims', list(dims[1:]) + [fresh]]                          # a shift
            return ['set_dims', [dims[0]] * nd]                                                 # duplicates (rejected when nd > 1)
        if f == 'flatten':
            k_ = rng.randint(1, nd); return ['flatten', rng.sample(dims, k_), 'tuple', None]
        if f == 'squeeze': return ['squeeze', None]
        if f == 'fillna': return ['fillna', 0]
        if f == 'dropna': return ['dropna', d, None]
        if f == 'binop': return ['binop_self', rng.choice(['+', '*'])]
        if f == 'align': return ['align_self']
        return ['query', 'repr']

    @staticmethod
    def generate(rng, n, tier, stats):
        D = da()
        cases = []
        maxlen = 8 if tier == 'quick' else 25
        while len(cases) < n:
            a0 = rand_array(rng, stats=stats, dtype=rng.choice(['f', 'f', 'i']), maxdim=3, minlen=0 if rng.random() < 0.12 else 1, maxlen=3, attrs=rng.random() < 0.3,
                            nan_p=0.1, kinds=('i', 'f', 'O'))
            prog = []
            cur = mk_array(a0)
            ok = True
            for _ in range(rng.randint(1, maxlen)):
                try:
                    aj = in_json(cur)
                except Exception:       # Unsupported values, or an array that cannot be observed (execute() reports that)
                    break
                if any('members' in axis_json(ax) for ax in cur.axes) or cur.dtype.kind not in 'fi':
                    o = rng.choice([['unflatten'], ['query', 'labels'], ['query', 'repr']])
                else:
                    try: o = Programs.random_op(rng, aj, stats)
                    except (TypeError, ValueError, IndexError): o = ['query', 'repr']     # labels the op builder has no recipe for (None, NaN)
                try:
                    with warnings.catch_warnings():
                        warnings.simplefilter('ignore')
                        with np.errstate(all='ignore'):
                            nxt = ops.RUN[o[0]](cur, [cur], *o[1:])
                except Exception:
                    continue       # an inapplicable operation: not part of the program
                if not isinstance(nxt, D.DimArray): continue    # keep only steps that yield an array
                prog.append(o); cur = nxt
            # a second live object edited at the very end: the original's caches are what the probes then see
            try: fork_ok = cur.ndim and all(ax.size for ax in cur.axes) and cur.dtype.kind in 'fi' and not any('members' in axis_json(ax) for ax in cur.axes)
            except Exception: fork_ok = False
            if rng.random() < 0.4 and fork_ok:
                try:
                    stats['program_op']['fork'] += 1
                    o = Programs.random_op(rng, in_json(cur), stats, force='fork')
                    cur = ops.RUN[o[0]](cur, [cur], *o[1:]); prog.append(o)
                except Exception: pass
            if not prog: continue
            stats['program_length'][len(prog)] += 1
            cases.append({'ins': [a0], 'ops': prog})
        return cases

    @staticmethod
    def execute(c):
        install_monitor()
        D = da()
        a = mk_array(c['ins'][0])
        c['_stale'] = None; c['_step_ill'] = None
        _MON['bad'] = []; _MON['on'] = True
        state = {}
        def go():
            cur = a
            for k, o in enumerate(c['ops']):
                cur = ops.RUN[o[0]](cur, [a], *o[1:])
                if isinstance(cur, D.DimArray) and c['_step_ill'] is None:
                    msg = ill_formed(cur)
                    if msg: c['_step_ill'] = 'after step %d (%s): %s' % (k, o[0], msg)
            state['final'] = cur
            return cur
        try:
            res = run_impl(go)
        finally:
            _MON['on'] = False
        c['_illformed'] = list(_MON['bad'][:3])
        # history independence: the final object vs a freshly constructed equal array under probes
        final = state.get('final')
        if res[0] == 'val' and isinstance(final, D.DimArray) and not ill_formed(final) \
                and not any(isinstance(ax, D.core.axes.MultiAxis) for ax in final.axes):
            with warnings.catch_warnings():
                warnings.simplefilter('ignore')
                with np.errstate(all='ignore'):
                    fresh = D.DimArray(final.values.copy(), axes=[D.Axis(ax.values.copy(), ax.name, **ax.attrs) for ax in final.axes], **final.attrs)
                    c['_stale'] = probe_difference(final, fresh)
                    if c['_stale'] is None:
                        # the cached answer of every axis must be the answer its current labels give
                        from dimarray.core.indexing import is_monotonic
                        for ax in final.axes:
                            cached = getattr(ax, '_monotonic', None)
                            if cached is not None and ax.values.dtype.kind != 'O' and bool(cached) != bool(is_monotonic(ax.values)):
                                c['_stale'] = 'is_monotonic() of axis %r (cached %r, its labels %r say %r)' % (ax.name, cached, ax.values.tolist(), bool(is_monotonic(ax.values)))
        return res

    @staticmethod
    def oracle(c, res):
        if c.get('_step_ill'): return c['_step_ill']
        if c.get('_illformed'): return 'the library constructed an ill-formed array while running the program: %s' % c['_illformed'][0]
        if c.get('_stale'): return 'after the history the array answers %s differently from a freshly constructed equal array' % c['_stale']
        if res[0] == 'val' and res[1]['t'] == 'arr':
            r = res[1]['v']
            if len(r['axes']) != len(r['shape']) or [len(ax['labels']) for ax in r['axes']] != r['shape']: return 'final array ill-formed'
            names = [ax['name'] for ax in r['axes']]
            if len(set(names)) != len(names) or any(not isinstance(x, str) or not x for x in names): return 'final dims %r not distinct non-empty strings' % names
            last = c['ops'][-1]
            if last[0] == 'set_axis' and isinstance(last[1], int) and 0 <= last[1] < len(r['axes']):
                # an axis given new labels is the axis a new array with these labels has: same labels, same label type
                ax = r['axes'][last[1]]
                if not labs_eq(ax['labels'], last[2]): return 'set_axis: labels %r, expected %r' % (ax['labels'], last[2])
                if ax['kind'] != last[3]: return 'set_axis(%r): the axis holds its labels as kind %r, a new axis with these labels as %r (it answers slices, tolerances, interpolation and alignment differently)' % (last[2], ax['kind'], last[3])
        return None

    @staticmethod
    def nontrivial(c, res): return res[0] == 'val' and len(c['ops']) >= 2

def probe_difference(x, y):
    """run a probe set of further operations on both; name the first that differs"""
    probes = []
    if x.ndim:
        d = x.dims[0]
        labs = list(x.axes[0].values)
        probes += [('sort_axis', lambda z: z.sort_axis(d)), ('T', lambda z: z.transpose(*z.dims[::-1])),
                   ('cumsum', lambda z: z.cumsum(axis=d)), ('flatten', lambda z: z.flatten()),
                   ('labels', lambda z: z.labels)]
        if labs:
            probes += [('take first label', lambda z: z.take({d: labs[0]})), ('slice', lambda z: z[labs[0]:labs[-1]] if z.axes[0].is_monotonic() and z.axes[0].dtype.kind != 'O' else 0),
                       ('reindex', lambda z: z.reindex_axis(labs[::-1], axis=d)), ('align', lambda z: da().align([z, z.take({d: labs[:1]})])[0])]
    probes += [('mul', lambda z: z * 2), ('repr', lambda z: repr(z)),
               ('is_monotonic', lambda z: [bool(ax.is_monotonic()) for ax in z.axes])]
    for k_, ax in enumerate(x.axes):
        if ax.size and ax.values.dtype.kind in 'if':
            lo, hi = float(np.min(ax.values)), float(np.max(ax.values)); nm = ax.name
            probes += [('label slice along %s' % nm, lambda z, nm=nm, lo=lo, hi=hi: z.take({nm: slice(lo, hi)})),
                       ('inner label slice along %s' % nm, lambda z, nm=nm, lo=lo, hi=hi: z.take({nm: slice(lo + 0.25, hi - 0.25)}))]
    for name, f in probes:
        try:
            with warnings.catch_warnings():
                warnings.simplefilter('ignore')
                with np.errstate(all='ignore'):
                    rx, ry = _canon(f(x)), _canon(f(y))
        except Exception as e:
            rx = ry = None
            try:
                f(x); ex = None
            except Exception as e1: ex = type(e1).__name__
            try:
                f(y); ey = None
            except Exception as e2: ey = type(e2).__name__
            if ex != ey: return '%s (%r vs %r)' % (name, ex, ey)
            continue
        if rx != ry: return name
    return None

def _canon(r):
    D = da()
    if isinstance(r, D.DimArray): return json.dumps(arr_json(r), sort_keys=True, default=str)
    if isinstance(r, tuple): return repr([np.asarray(t).tolist() for t in r])
    return repr(r)

# a second live object: derive r from the array by a non-in-place operation, fill the caches of both, edit a label of r in
# place, and carry on with the ORIGINAL array: it must keep answering like a fresh array with its current labels
@ops.op('fork_edit')
class _:
    def run(a, ins, how, j, newlab):
        for ax in a.axes: ax.is_monotonic()
        if how == 'slice': r = a.ix[tuple([slice(0, None)] * a.ndim)] if a.ndim else a
        elif how == 'slice1': r = a.ix[1:] if a.ndim else a
        elif how == 'labelslice':
            ax = a.axes[0]; r = a[ax.values[0]:ax.values[-1]] if ax.is_monotonic() and ax.values.dtype.kind != 'O' and ax.size else a.ix[0:]
        elif how == 'diff': r = a.diff(axis=a.dims[0]) if a.axes[0].size > 1 else a.ix[0:]
        elif how == 'cumsum': r = a.cumsum(axis=0)
        elif how == 'mul': r = a * 2
        elif how == 'take_list': r = a.take_axis(list(range(a.axes[0].size)), axis=0, indexing='position')
        elif how == 'reindex_same': r = a.reindex_axis(a.axes[0].values, axis=0)
        elif how == 'dropna': r = a.dropna(axis=0)
        elif how == 'sort_axis': r = a.sort_axis(axis=0)
        elif how == 'copy': r = a.copy()
        elif how == 'broadcast_scalar': r = da().DimArray(7.).broadcast(a)
        elif how == 'broadcast_reduced': r = a.sum(axis=0).broadcast(a) if a.ndim > 1 else da().DimArray(7.).broadcast(a)
        elif how == 'interp_like':
            num = [ax.values.dtype.kind in 'if' and ax.size > 0 for ax in a.axes]
            r = (a * 1).interp_like(a) if all(num) else a.ix[0:]
        elif how == 'reindex_like': r = (a * 1).reindex_like(a)
        elif how == 'interp_axis_obj':
            r = (a * 1).interp_axis(a.axes[0], axis=a.dims[0]) if a.axes[0].values.dtype.kind in 'if' and a.axes[0].size else a.ix[0:]
        elif how == 'ctor_axis_pairs': r = da().DimArray(a.values.copy(), axes=[(ax.name, ax) for ax in a.axes])
        elif how == 'reindex_axis_obj': r = (a * 1).reindex_axis(a.axes[0])
        else: raise ValueError(how)
        for ax in r.axes: ax.is_monotonic()
        if r.ndim and r.axes[j % r.ndim].size and not any(r.axes[j % r.ndim] is ax for ax in a.axes):
            r.axes[j % r.ndim][0] = newlab
        return a
    def coq(how, j, newlab): raise Unsupported('two live objects: decided by the probes against a fresh array')

# self-referential ops used in programs
@ops.op('binop_self')
class _:
    def run(a, ins, o): return ops.py_binop(o, a, a.copy())
    def coq(o): raise Unsupported('binop with itself: checked by the monitor and the probes only')
@ops.op('align_self')
class _:
    def run(a, ins): return da().align([a, a.copy()])[0]
    def coq(): raise Unsupported('align with itself: checked by the monitor and the probes only')

# =============================================================== suite 1: constructors
class Ctor:
    HEADER = ('From DA Require Import Prelude NDArray Array PyRT.\nFrom DA.Model Require Import Value Reshape Construct.\nOpen Scope string_scope.\n')
    RUNNER = 'ccase_ok'
    SHOW = 'ccase_show'
    FORMS = ['lists_dims', 'labels_dims', 'pairs', 'axisobjs', 'dict_dims', 'dict_nodims', 'dims_only', 'nothing', 'zeros', 'ones', 'empty_shape', 'nested', 'nested_labels']
    BAD = ['shape_mismatch', 'dup_names', 'empty_name', 'nonstr_name', 'wrong_ndims', 'too_many_dims']

    @staticmethod
    def generate(rng, n, tier, stats):
        cases = []
        while len(cases) < n:
            nd = rng.randint(0, 3)
            a = rand_array(rng, ndim=nd, minlen=1, maxlen=3, dtype=rng.choice(['f', 'i']), kinds=('i', 'f', 'O'))
            form = rng.choice(Ctor.FORMS); bad = rng.choice(Ctor.BAD) if rng.random() < 0.3 and nd >= 1 else None
            if bad == 'too_many_dims': form = rng.choice(['dims_only', 'empty_shape', 'dict_dims', 'lists_dims', 'labels_dims'])
            elif bad and form in ('dims_only', 'nothing', 'zeros', 'ones', 'empty_shape', 'nested', 'nested_labels'): form = rng.choice(['lists_dims', 'pairs', 'axisobjs', 'dict_dims', 'dict_nodims'])
            if form in ('nested', 'nested_labels') and nd != 2: form = 'lists_dims'
            if form in ('dict_dims', 'dict_nodims') and nd == 0: form = 'lists_dims'
            stats['ctor_form'][form] += 1; stats['ctor_bad'][str(bad)] += 1
            dims = list(a['dims']); labels = [list(l) for l in a['labels']]
            if bad == 'shape_mismatch':
                j_ = rng.randrange(nd)
                labels[j_].append('zz' if a['axdtype'][j_] == 'O' else 99)      # one label too many, of the axis' own kind
            elif bad == 'dup_names' and nd >= 2: dims[1] = dims[0]
            elif bad == 'dup_names': bad = None
            elif bad == 'empty_name': dims[rng.randrange(nd)] = ''
            elif bad == 'nonstr_name': dims[rng.randrange(nd)] = 3
            elif bad == 'wrong_ndims': dims = dims[:-1]; labels = labels[:-1]
            elif bad == 'too_many_dims': dims = dims + ['extra']        # one dimension name more than the data has dimensions
            cases.append({'form': form, 'bad': bad, 'arr': a, 'dims': dims, 'labels': labels})
        return cases

    @staticmethod
    def call(c):
        D = da(); a = c['arr']; dims = c['dims']; labels = c['labels']; kinds = a['axdtype']
        shape = [len(l) for l in a['labels']]
        vals = np.array(a['flat'], dtype={'f': float, 'i': np.int64}[a['dtype']]).reshape(shape)
        L = [ops.labs_np(l, k) for l, k in zip(labels, kinds)]
        f = c['form']
        if f == 'lists_dims': return D.DimArray(vals, axes=[list(x) if k != 'O' else list(x) for x, k in zip(L, kinds)], dims=dims)
        if f == 'labels_dims': return D.DimArray(vals, labels=L, dims=dims)
        if f == 'pairs': return D.DimArray(vals, axes=[(d, x) for d, x in zip(dims, L)])
        if f == 'axisobjs': return D.DimArray(vals, axes=[D.Axis(x, d) for d, x in zip(dims, L)])
        if f == 'dict_dims':
            items = list(zip(dims, L)); random.Random(len(dims)).shuffle(items)
            return D.DimArray(vals, axes=dict(items), dims=dims)
        if f == 'dict_nodims': return D.DimArray(vals, dict(zip(dims, L)))      # no dims=: the order of the dict (the class docstring example)
        if f == 'dims_only': return D.DimArray(vals, dims=dims)
        if f == 'nothing': return D.DimArray(vals)
        if f == 'zeros': return D.zeros(axes=L, dims=dims)
        if f == 'ones': return D.ones(axes=[(d, x) for d, x in zip(dims, L)])
        if f == 'empty_shape':
            r = D.empty(shape=tuple(shape), dims=dims); r.values[...] = 0; return r
        if f == 'nested':
            l0, l1 = [ops.py_label(x) for x in labels[0]], [ops.py_label(x) for x in labels[1]]
            nested = {k0: {k1: vals[i, j].item() for j, k1 in enumerate(l1)} for i, k0 in enumerate(l0)}
            return D.DimArray(nested, dims=dims)
        if f == 'nested_labels':
            # nested dicts whose keys were inserted in ANOTHER order than the labels given next to them: the labels select by key
            l0, l1 = [ops.py_label(x) for x in labels[0]], [ops.py_label(x) for x in labels[1]]
            o0 = list(range(len(l0))); o1 = list(range(len(l1))); rr = random.Random(len(l0) * 7 + len(l1)); rr.shuffle(o0); rr.shuffle(o1)
            nested = {l0[i]: {l1[j]: vals[i, j].item() for j in o1} for i in o0}
            return D.DimArray(nested, dims=dims, labels=[l0, l1])

    @staticmethod
    def execute(c):
        install_monitor(); _MON['bad'] = []; _MON['on'] = True
        try: res = run_impl(lambda: Ctor.call(c))
        finally: _MON['on'] = False
        c['_illformed'] = list(_MON['bad'][:3])
        return res

    @staticmethod
    def coq_case(c, res):
        a = c['arr']; dims = c['dims']; labels = c['labels']; kinds = a['axdtype']; f = c['form']
        dn = lambda d: '(DStr %s)' % cq_str(d) if isinstance(d, str) else 'DNonStr'
        ls = lambda l, k: '(%s, %s)' % (cq_kind(kind_of(ops.labs_np(l, k))), ops.cq_labs([lab_json(x) for x in ops.labs_np(l, k)]))
        shape = [len(l) for l in a['labels']]
        nd_ = '{| sh := %s; dat := %s; kd := %s |}' % (cq_list(['%d' % s for s in shape]), cq_list([cq_cell(x) for x in a['flat']]), cq_kind(a['dtype']))
        e = cq_expect(res, True)
        if f in ('lists_dims', 'labels_dims'): sp = '(SLists %s (Some %s))' % (cq_list([ls(l, k) for l, k in zip(labels, kinds)]), cq_list([dn(d) for d in dims]))
        elif f == 'pairs': sp = '(SPairs %s)' % cq_list(['(%s, %s)' % (dn(d), ls(l, k)) for d, l, k in zip(dims, labels, kinds)])
        elif f == 'axisobjs':
            if any(not isinstance(d, str) or d == '' for d in dims): return None     # rejected when the Axis objects are built, before the constructor
            sp = '(SAxisObjs %s)' % cq_list([ops.cq_axis_in({'name': d, 'labels': l, 'kind': k}) for d, l, k in zip(dims, labels, kinds)])
        elif f == 'dict_dims':
            items = list(zip(dims, labels, kinds)); random.Random(len(dims)).shuffle(items)
            if len(set(map(str, dims))) != len(dims): return None      # a dict cannot hold a duplicate key
            sp = '(SDict %s %s)' % (cq_list(['(%s, %s)' % (dn(d), ls(l, k)) for d, l, k in items]), cq_list([dn(d) for d in dims]))
        elif f == 'dict_nodims':
            if len(set(map(str, dims))) != len(dims): return None      # a dict cannot hold a duplicate key
            sp = '(SDict %s %s)' % (cq_list(['(%s, %s)' % (dn(d), ls(l, k)) for d, l, k in zip(dims, labels, kinds)]), cq_list([dn(d) for d in dims]))
        elif f == 'dims_only': sp = '(SDimsOnly %s)' % cq_list([dn(d) for d in dims])
        elif f == 'nothing': sp = 'SNothing'
        elif f in ('zeros', 'ones'):
            if f == 'zeros': sp = '(SLists %s (Some %s))' % (cq_list([ls(l, k) for l, k in zip(labels, kinds)]), cq_list([dn(d) for d in dims]))
            else: sp = '(SPairs %s)' % cq_list(['(%s, %s)' % (dn(d), ls(l, k)) for d, l, k in zip(dims, labels, kinds)])
            return '(CFill %s None %s KF %s)' % (sp, '(N_ 0)' if f == 'zeros' else '(N_ 1)', e)
        elif f == 'empty_shape':
            return '(CFill (SDimsOnly %s) (Some %s) (N_ 0) KF %s)' % (cq_list([dn(d) for d in dims]), cq_list(['%d' % s for s in shape]), e)
        else: return None       # nested dicts: compared with the other forms by the oracle
        return '(CCtor %s %s %s)' % (sp, nd_, e)

    @staticmethod
    def oracle(c, res):
        if c.get('_illformed'): return 'ill-formed array constructed: %s' % c['_illformed'][0]
        bad = c['bad']; f = c['form']
        if bad in ('shape_mismatch', 'wrong_ndims', 'too_many_dims'):
            return None if res[0] == 'err' else 'data whose shape disagrees with the axes was accepted (%s, form %s)' % (bad, f)
        if bad == 'dup_names':
            if f in ('dict_dims', 'dict_nodims'): return None
            return None if res[0] == 'err' else 'duplicate dimension names were accepted'
        if bad in ('empty_name', 'nonstr_name'):
            return None if res[0] == 'err' else 'an empty / non-string dimension name was accepted'
        if res[0] == 'err': return 'documented constructor form %s raised %s' % (f, res[1])
        # all forms build equal arrays: compare with the reference form (Axis objects)
        D = da(); a = c['arr']
        ref = arr_json(mk_array(a))
        r = res[1]['v']
        if f in ('dims_only', 'nothing', 'empty_shape'):
            want_labels = [list(range(len(l))) for l in a['labels']]
            want_dims = c['dims'] if f != 'nothing' else ['x%d' % i for i in range(len(a['dims']))]
        else:
            want_labels = a['labels']; want_dims = c['dims']
        if obs_dims(r) != want_dims: return 'form %s: dims %r' % (f, obs_dims(r))
        for ax, l in zip(r['axes'], want_labels):
            if not labs_eq(ax['labels'], l): return 'form %s: labels %r differ from %r' % (f, ax['labels'], l)
        if f in ('zeros', 'ones', 'empty_shape'): return None
        if not all(cell_eq(x, y) or (not isinstance(x, dict) and not isinstance(y, dict) and float(x) == float(y)) for x, y in zip(r['flat'], ref['flat'])) or len(r['flat']) != len(ref['flat']):
            return 'form %s: values differ' % f
        return None

    @staticmethod
    def nontrivial(c, res): return res[0] == 'val'

# =============================================================== suite 2: the monotonicity cache of an Axis object
class AxisCache:
    HEADER = ('From DA Require Import Prelude NDArray Array PyRT.\nFrom DA.Model Require Import Value Reshape Indexing Align Cache.\nOpen Scope string_scope.\n')
    RUNNER = 'ccase_run'
    SHOW = 'ccase_trace'

    @staticmethod
    def generate(rng, n, tier, stats):
        cases = []
        maxlen = 8 if tier == 'quick' else 30
        while len(cases) < n:
            kind = rng.choice(['i', 'i', 'f', 'O'])
            m = rng.randint(0, 5)
            order = rng.choice(['inc', 'dec', 'shuf', 'dup'])
            if kind == 'O': labs = rng.sample(list('abcdefgh'), m)
            else: labs = rng.sample(range(-5, 12), m)
            if order == 'inc': labs.sort()
            elif order == 'dec': labs.sort(reverse=True)
            elif order == 'dup' and m >= 2: labs[rng.randrange(m)] = labs[rng.randrange(m)]
            if kind == 'f': labs = [x + 0.5 for x in labs]
            stats['axis_order'][order] += 1
            prog = []; cur = len(labs)
            if cur >= 2 and rng.random() < 0.3:
                # a cached answer, then a derived axis whose own answer may differ, then the question again
                a_ = rng.randint(0, cur - 1); b_ = min(cur, a_ + rng.randint(1, 2))
                prog = [['query'], rng.choice([['slice', a_, b_], ['reverse'], ['copy'], ['take', [a_]]]), ['query']]
                if prog[1][0] == 'slice': cur = b_ - a_
                elif prog[1][0] == 'take': cur = 1
                stats['cache_scenario']['query-derive-query'] += 1
            for _ in range(rng.randint(1, maxlen)):
                f = rng.choice(['query', 'query', 'setitem', 'setvalues', 'sort', 'slice', 'reverse', 'take', 'copy'])
                stats['cache_op'][f] += 1
                if f == 'query': prog.append(['query'])
                elif f == 'setitem':
                    i = rng.randint(-cur - 1, cur); v = rng.choice([rng.randint(-5, 12), rng.randint(-5, 12) + 0.5] if kind != 'O' else ['q', 'a', 'z'])    # no mixed str/number axes: their comparison raises
                    if kind == 'i' and rng.random() < 0.6: v = rng.randint(-5, 12)
                    prog.append(['setitem', i, v])
                    if isinstance(v, str): kind = 'O'
                    elif isinstance(v, float) and kind == 'i': kind = 'f'
                elif f == 'setvalues':
                    k2 = rng.choice(['i', 'f', 'O']); sz = cur if rng.random() < 0.85 else cur + 1
                    new = rng.sample(list('abcdefgh'), min(sz, 8)) if k2 == 'O' else sorted(rng.sample(range(-5, 12), sz), reverse=rng.random() < 0.3)
                    if k2 == 'f': new = [x + 0.25 for x in new]
                    if rng.random() < 0.4: rng.shuffle(new)
                    prog.append(['setvalues', k2, new])
                    if len(new) == cur: kind = k2
                elif f == 'sort':
                    if kind == 'O' : prog.append(['query'])      # sorting mixed objects may raise: not the subject
                    else: prog.append(['sort'])
                elif f == 'slice':
                    a_ = rng.randint(0, cur); b_ = rng.randint(a_, cur); prog.append(['slice', a_, b_]); cur = b_ - a_
                elif f == 'reverse': prog.append(['reverse'])
                elif f == 'take':
                    if cur == 0: prog.append(['query']); continue
                    idx = [rng.randint(-cur, cur - 1) for _ in range(rng.randint(1, 4))]
                    if rng.random() < 0.1: idx.append(cur + 2)
                    else: cur = len(idx)
                    prog.append(['take', idx])
                else: prog.append(['copy'])
            cases.append({'labels': labs, 'kind': 'O' if labs and isinstance(labs[0], str) else ('f' if labs and isinstance(labs[0], float) else ('i' if labs else 'f')), 'prog': prog})
        return cases

    @staticmethod
    def execute(c):
        D = da()
        ax = D.Axis(ops.labs_np(c['labels'], c['kind']) if c['labels'] else np.array([], dtype=float), 'x')
        c['kind0'] = kind_of(ax.values)
        trace = []
        from dimarray.core.indexing import is_monotonic
        c['_bad'] = None
        for k, o in enumerate(c['prog']):
            out = None
            try:
                if o[0] == 'query': out = bool(ax.is_monotonic())
                elif o[0] == 'setitem': ax[o[1]] = o[2]
                elif o[0] == 'setvalues': ax.values = ops.labs_np(o[2], o[1]) if o[2] else np.array([], dtype={'i': np.int64, 'f': float, 'O': object}[o[1]])
                elif o[0] == 'sort': ax.sort()
                elif o[0] == 'slice': ax = ax[o[1]:o[2]]
                elif o[0] == 'reverse': ax = ax[::-1]
                elif o[0] == 'take': ax = ax.take(o[1])
                elif o[0] == 'copy': ax = ax.copy()
            except Exception as e:
                out = {'err': type(e).__name__}
            m = ax._monotonic
            truth = bool(is_monotonic(ax.values))
            if m is not None and bool(m) != truth and c['_bad'] is None:
                c['_bad'] = 'after step %d (%s) the Axis caches is_monotonic() = %r while its labels %r give %r' % (k, o[0], bool(m), ax.values.tolist(), truth)
            if isinstance(out, bool) and out != truth and c['_bad'] is None:
                c['_bad'] = 'step %d: is_monotonic() answered %r; a fresh Axis with the same labels %r answers %r' % (k, out, ax.values.tolist(), truth)
            trace.append({'labels': [lab_json(x) for x in ax.values], 'kind': kind_of(ax.values), 'cache': None if m is None else bool(m), 'out': out})
        return ('val', {'t': 'trace', 'v': trace})

    @staticmethod
    def coq_case(c, res):
        def cop(o):
            if o[0] == 'query': return 'CQuery'
            if o[0] == 'setitem':
                v = o[2]; k = 'O' if isinstance(v, str) else 'f' if isinstance(v, float) else 'i'
                return '(CSetItem %s %s %s)' % (cq_z(o[1]), cq_label(v), cq_kind({'O': 'U'}.get(k, k)))
            if o[0] == 'setvalues': return '(CSetValues %s %s)' % (cq_kind(o[1]), ops.cq_labs(o[2]))
            if o[0] == 'sort': return 'CSort'
            if o[0] == 'slice': return '(CSlice %d %d)' % (o[1], o[2])
            if o[0] == 'reverse': return 'CReverse'
            if o[0] == 'take': return '(CTake %s)' % cq_list([cq_z(z) for z in o[1]])
            return 'CCopy'
        def cout(x):
            if x is None: return 'ONone'
            if isinstance(x, bool): return '(OBool %s)' % ('true' if x else 'false')
            return '(OErr %s)' % (x['err'] if x['err'] in ('IndexError', 'ValueError', 'TypeError', 'KeyError') else 'OtherError')
        steps = []
        for o, t in zip(c['prog'], res[1]['v']):
            m = 'None' if t['cache'] is None else '(Some %s)' % ('true' if t['cache'] else 'false')
            steps.append('(%s, (%s, %s, %s, %s))' % (cop(o), ops.cq_labs(t['labels']), cq_kind(t['kind']), m, cout(t['out'])))
        return '(%s, %s, %s)' % (ops.cq_labs(c['labels']), cq_kind(c['kind0']), cq_list(steps))

    @staticmethod
    def oracle(c, res): return c.get('_bad')

    @staticmethod
    def nontrivial(c, res): return sum(1 for o in c['prog'] if o[0] == 'query') >= 1 and len(c['prog']) >= 3

# =============================================================== suite 3: the variables of a Dataset
class DatasetVars:
    """'... and every variable of a Dataset': the Dataset histories of C13 (construction, assignment, rejected assignment, deletion, renaming of
    axes from the dataset and from a variable, ds.dims = ..., set_axis / axis replacement by name AND by position, key renaming), every variable
    tested for well-formedness after every step; the same heap model decides the expected state."""
    HEADER = ('From DA Require Import Prelude NDArray Array PyRT.\n'
              'From DA.Model Require Import Value Reshape Indexing Align Dataset.\nOpen Scope string_scope.\n')
    RUNNER = 'hist_case_ok'
    SHOW = 'hist_case_show'

    @staticmethod
    def generate(rng, n, tier, stats):
        import props.c13 as c13
        return c13.generate(rng, min(n, 100 if tier == 'quick' else 600), tier, stats)

    @staticmethod
    def execute(c):
        import props.c13 as c13
        return c13.execute(c)

    @staticmethod
    def coq_case(c, res):
        import props.c13 as c13
        return c13.coq_case(c, res)

    @staticmethod
    def oracle(c, res):
        for k, (st, r) in enumerate(zip(c['hist'], res[1])):
            for v in r['obs']['vars']:
                a = v['arr']; names = [ax['name'] for ax in a['axes']]
                where = 'after step %d (%s): Dataset variable %r' % (k, st['op'][0], v['key'])
                if len(a['axes']) != len(a['shape']): return '%s has %d axes for %d dimensions' % (where, len(a['axes']), len(a['shape']))
                for ax, m in zip(a['axes'], a['shape']):
                    if len(ax['labels']) != m: return '%s: axis %r has %d labels for a dimension of size %d' % (where, ax['name'], len(ax['labels']), m)
                    if not isinstance(ax['name'], str) or ax['name'] == '': return '%s: axis name %r is not a non-empty string' % (where, ax['name'])
                if len(set(names)) != len(names): return '%s has duplicate dimension names %r' % (where, names)
        return None

    @staticmethod
    def nontrivial(c, res): return sum(1 for r in res[1] if r['status'] is None) >= 3

import random
MODEL_TARGETS = ('Model/Construct.vo', 'Model/Cache.vo', 'Model/Dataset.vo')
SUITES = [Programs, Ctor, AxisCache, DatasetVars]
RULE = ('suite 0: random programs (length 1-8 quick, 1-25 thorough) over indexing, assignment, arithmetic, reductions, reshaping, reindexing, '
        'aligning, renaming / relabelling in place, Dataset insertion+extraction, interleaved with cache-filling queries; every DimArray '
        'constructed by the library while the program runs is tested for well-formedness (monitor on DimArray.__init__); the final array '
        'is compared with the model and with a freshly constructed equal array under a probe set of further operations; '
        'suite 1: all documented constructor forms and the malformed inputs; suite 2: histories of queries, label edits, sorts, slices, '
        'reversals, takes and copies on one Axis object, its labels, dtype kind and private _monotonic cache compared with the state machine '
        'of Model/Cache.v after every step, and the cache invariant tested on the real object; suite 3: the Dataset histories of C13 with every '
        'variable tested for well-formedness after every step')
def generate(rng, n, tier, stats): raise NotImplementedError
