"""C10 - rearranging dimensions preserves every element's label coordinates."""
import itertools
from common import *
from gen import *
from oracle_util import *
import numpy as np
import json

ID = 'C10'
STRICT_ERR = False

def _inv(p): 
    q = [0] * len(p)
    for k, j in enumerate(p): q[j] = k
    return q

def generate(rng, n, tier, stats):
    cases = []
    def arr(**kw):
        kw.setdefault('distinct_lens', True); kw.setdefault('attrs', True)
        return rand_array(rng, stats=stats, **kw)
    kinds = ['transpose', 'T', 'swapaxes', 'rollaxis', 'newaxis', 'squeeze', 'repeat', 'broadcast',
             'broadcast_to', 'compose', 'inverse', 'malformed']
    while len(cases) < n:
        k = rng.choice(kinds)
        stats['op'][k] += 1
        if k == 'transpose':
            a = arr(); nd = len(a['dims'])
            p = list(range(nd)); rng.shuffle(p)
            refs = [refn(rng, a['dims'], i) for i in p]
            cases.append({'ins': [a], 'ops': [[rng.choice(['transpose', 'transpose_list']), refs]]})
        elif k == 'T':
            a = arr(maxdim=4); cases.append({'ins': [a], 'ops': [['T'] if rng.random() < 0.6 else ['transpose', []]]})
        elif k == 'swapaxes':
            a = arr(ndim=rng.randint(1, 4)); nd = len(a['dims'])
            i, j = rng.randrange(nd), rng.randrange(nd)
            cases.append({'ins': [a], 'ops': [['swapaxes', refn(rng, a['dims'], i), refn(rng, a['dims'], j)]]})
        elif k == 'rollaxis':
            a = arr(ndim=rng.randint(1, 4)); nd = len(a['dims'])
            cases.append({'ins': [a], 'ops': [['rollaxis', refn(rng, a['dims'], rng.randrange(nd)), rng.randint(0, nd)]]})
        elif k == 'newaxis':
            a = arr(maxdim=3); nd = len(a['dims'])
            name = rng.choice([d for d in DIMPOOL if d not in a['dims']])
            pos = rng.choice(list(range(nd + 1)) + [-1])
            if rng.random() < 0.5:
                kind = rng.choice(['i', 'f', 'O']); labs = rand_labels(rng, rng.randint(1, 3), kind, 'shuf')
            else: kind, labs = None, None
            cases.append({'ins': [a], 'ops': [['newaxis', name, labs, kind, pos]]})
        elif k == 'squeeze':
            nd = rng.randint(1, 4)
            lens = [rng.choice([1, 1, 2, 3]) for _ in range(nd)]
            a = arr(lens=lens, ndim=nd)
            r = None if rng.random() < 0.4 else ref(rng, a['dims'], rng.randrange(nd))
            cases.append({'ins': [a], 'ops': [['squeeze', r]]})
        elif k == 'repeat':
            nd = rng.randint(1, 4)
            lens = [rng.choice([1, 1, 2, 3]) for _ in range(nd)]
            a = arr(lens=lens, ndim=nd)
            i = rng.randrange(nd)
            if rng.random() < 0.3:
                cases.append({'ins': [a], 'ops': [['repeat_n', rng.randint(1, 3), ref(rng, a['dims'], i)]]})
            else:
                kind = rng.choice(['i', 'f', 'O']); labs = rand_labels(rng, rng.randint(1, 3), kind, 'shuf')
                cases.append({'ins': [a], 'ops': [['repeat', labs, kind, ref(rng, a['dims'], i)]]})
        elif k in ('broadcast', 'broadcast_to'):
            a = arr(maxdim=3, minlen=1)
            stretch = None
            if a['dims'] and rng.random() < 0.35:
                # a dimension the array already has WITH ONE LABEL, which the target has with several: it is repeated along them
                jj = rng.randrange(len(a['dims']))
                a = rand_array(rng, stats=stats, dims=list(a['dims']), lens=[1 if j == jj else len(l) for j, l in enumerate(a['labels'])], distinct_lens=False, attrs=True)
                stretch = a['dims'][jj]; stats['broadcast_own_singleton']['yes'] += 1
            extra = rng.sample([d for d in DIMPOOL if d not in a['dims']], rng.randint(0, 2))
            names = a['dims'] + extra; rng.shuffle(names)
            tgt = []
            for d in names:
                if d == stretch:
                    i = a['dims'].index(d); kind = a['axdtype'][i]
                    more = [l for l in rand_labels(rng, 3, kind, 'shuf') if l not in a['labels'][i]][:rng.randint(1, 2)]
                    labs = list(a['labels'][i]) + more; rng.shuffle(labs)
                    tgt.append({'name': d, 'labels': labs, 'kind': kind})
                elif d in a['dims']:
                    i = a['dims'].index(d)
                    tgt.append({'name': d, 'labels': a['labels'][i], 'kind': a['axdtype'][i]})
                else:
                    kind = rng.choice(['i', 'f', 'O'])
                    tgt.append({'name': d, 'labels': rand_labels(rng, rng.randint(1, 3), kind, 'shuf'), 'kind': kind})
            if k == 'broadcast':
                cases.append({'ins': [a], 'ops': [['broadcast', tgt]]})
            else:
                lens = [len(t['labels']) for t in tgt]
                b = rand_array(rng, dims=names, lens=lens)
                b['labels'] = [t['labels'] for t in tgt]; b['axdtype'] = [t['kind'] for t in tgt]
                cases.append({'ins': [a, b], 'ops': [['broadcast_to', 1]]})
        elif k == 'inverse':
            a = arr(ndim=rng.randint(2, 4)); nd = len(a['dims'])
            p = list(range(nd)); rng.shuffle(p)
            cases.append({'ins': [a], 'ops': [['transpose', p], ['transpose', _inv(p)]], 'tag': 'inverse'})
        elif k == 'compose':
            a = arr(ndim=rng.randint(2, 4)); nd = len(a['dims']); dims = list(a['dims'])
            ops = []
            for _ in range(rng.randint(2, 3)):
                c = rng.choice(['transpose', 'swapaxes', 'rollaxis', 'newaxis_squeeze'])
                if c == 'transpose':
                    p = list(range(len(dims))); rng.shuffle(p); ops.append(['transpose', [dims[i] for i in p]]); dims = [dims[i] for i in p]
                elif c == 'swapaxes':
                    i, j = rng.randrange(len(dims)), rng.randrange(len(dims)); ops.append(['swapaxes', i, j]); dims[i], dims[j] = dims[j], dims[i]
                elif c == 'rollaxis':
                    i, s = rng.randrange(len(dims)), rng.randint(0, len(dims)); ops.append(['rollaxis', dims[i], s])
                    d = dims.pop(i); dims.insert(s - 1 if i < s else s, d)
                else:
                    pos = rng.randint(0, len(dims)); ops.append(['newaxis', 'q', None, None, pos]); ops.append(['squeeze', 'q'])
            cases.append({'ins': [a], 'ops': ops})
        else:
            a = arr(ndim=rng.randint(1, 3)); nd = len(a['dims'])
            m = rng.choice(['short', 'dup', 'unknown', 'oob', 'dupname', 'rep_nonsingle', 'sq_nonsingle'])
            stats['malformed'][m] += 1
            if m == 'short': ops = [['transpose', list(range(nd))[:-1] or [5]]]
            elif m == 'dup': ops = [['transpose', [0] * nd]] if nd > 1 else [['transpose', [0, 0]]]
            elif m == 'unknown': ops = [['swapaxes', 'nope', 0]]
            elif m == 'oob': ops = [['rollaxis', nd + 2, 0]]
            elif m == 'dupname': ops = [['newaxis', a['dims'][0], None, None, 0]]
            elif m == 'rep_nonsingle':
                a = arr(lens=[2] * nd, ndim=nd); ops = [['repeat_n', 2, 0]]
            else:
                a = arr(lens=[2] * nd, ndim=nd); ops = [['squeeze', 0]]
            cases.append({'ins': [a], 'ops': ops, 'tag': 'malformed'})
    # a dimension name may hold a ';' (reshape uses a stand-in for ',' internally): the name is rewritten throughout the case
    out = []
    for c in cases:
        ds_ = c['ins'][0]['dims'] if c.get('ins') and c['ins'][0]['dims'] else []
        if ds_ and rng.random() < 0.08:
            d_ = rng.choice(ds_); stats['semicolon_in_name']['yes'] += 1
            keep = {k: v for k, v in c.items() if k.startswith('_')}
            c = json.loads(json.dumps({k: v for k, v in c.items() if not k.startswith('_')}).replace('"%s"' % d_, '"%s;s"' % d_))
            c.update(keep)
        out.append(c)
    return out

# ---------------------------------------------------------------- oracle (from the property text)
def _pos(dims, r):
    if isinstance(r, str): return dims.index(r)
    return r if r >= 0 else r + len(dims)       # negative positions count from the end, as in NumPy

def refn(rng, dims, i):
    """dimension i by name, by position, or by NEGATIVE position"""
    u = rng.random()
    return dims[i] if u < 0.4 else i if u < 0.75 else i - len(dims)

def expected_dims(dims, lens, ops, ins):
    """dims after the ops, as the property states them; None = the property does not say
    (erroneous request)."""
    dims = list(dims); lens = dict(zip(dims, lens))
    changed = set()   # dims that were newly introduced or repeated
    for o in ops:
        n = o[0]
        try:
            if n in ('transpose', 'transpose_list'):
                p = [_pos(dims, r) for r in o[1]]
                if not p:
                    p = list(range(len(dims)))[::-1]          # no argument: all dimensions reversed, as NumPy
                if sorted(p) != list(range(len(dims))): return None
                dims = [dims[i] for i in p]
            elif n == 'T':
                dims = dims[::-1]
            elif n == 'swapaxes':
                i, j = _pos(dims, o[1]), _pos(dims, o[2]); dims[i], dims[j] = dims[j], dims[i]
            elif n == 'rollaxis':
                i, s = _pos(dims, o[1]), o[2]
                if not (0 <= s <= len(dims)): return None
                d = dims.pop(i); dims.insert(s - 1 if i < s else s, d)
            elif n == 'newaxis':
                if o[1] in dims: return None
                pos = len(dims) if o[4] == -1 else o[4]
                if not 0 <= pos <= len(dims): return None
                dims.insert(pos, o[1]); changed.add(o[1]); lens[o[1]] = 1 if o[2] is None else len(o[2])
            elif n == 'squeeze':
                if o[1] is None: dims = [d for d in dims if lens[d] != 1]
                else:
                    i = _pos(dims, o[1])
                    if lens[dims[i]] != 1: return None
                    dims.pop(i)
            elif n in ('repeat', 'repeat_n'):
                i = _pos(dims, o[-1])
                if lens[dims[i]] != 1: return None
                changed.add(dims[i]); lens[dims[i]] = o[1] if n == 'repeat_n' else len(o[1])
            elif n in ('broadcast', 'broadcast_to'):
                tgt = o[1] if n == 'broadcast' else [{'name': d, 'labels': l} for d, l in zip(ins[o[1]]['dims'], ins[o[1]]['labels'])]
                names = [t['name'] for t in tgt]
                if any(d not in names and lens[d] != 1 for d in dims): return None
                for t in tgt:
                    if t['name'] not in dims or (lens[t['name']] == 1 and len(t['labels']) != 1):
                        changed.add(t['name'])
                    elif lens[t['name']] != len(t['labels']): return None
                    lens[t['name']] = len(t['labels']) if t['name'] in changed else lens[t['name']]
                dims = names
        except (ValueError, IndexError):
            return None
    return dims, changed

def oracle(case, res):
    a = arr_json(mk_array(case['ins'][0]))
    adims = obs_dims(a); alens = [len(x['labels']) for x in a['axes']]
    exp = expected_dims(adims, alens, case['ops'], case['ins'])
    if exp is None:
        return None   # erroneous request: the property does not fix the outcome
    dims, changed = exp
    if res[0] == 'err':
        return 'valid rearrangement raised %s' % res[1]
    if res[1]['t'] != 'arr':
        return 'result is not an array'
    r = res[1]['v']
    if obs_dims(r) != dims:
        return 'dims %r, expected %r' % (obs_dims(r), dims)
    if not meta_eq(r['attrs'], a['attrs']):
        return 'metadata not kept'
    rl = dict(zip(obs_dims(r), r['axes'])); al = dict(zip(adims, a['axes']))
    for d in dims:
        if d in al and d not in changed:
            if not labs_eq(rl[d]['labels'], al[d]['labels']):
                return 'axis %s does not carry its labels' % d
            if rl[d]['attrs'] != al[d]['attrs']:
                return 'axis %s lost its metadata' % d
    if len(r['axes']) != len(r['shape']) or [len(x['labels']) for x in r['axes']] != r['shape']:
        return 'ill-formed result'
    last = case['ops'][-1]
    if last[0] in ('broadcast', 'broadcast_to'):
        # every dimension of the result carries the labels of the axis it was broadcast onto
        tgt = last[1] if last[0] == 'broadcast' else [{'name': d, 'labels': l} for d, l in zip(case['ins'][last[1]]['dims'], case['ins'][last[1]]['labels'])]
        for t in tgt:
            if t['name'] not in adims and len(t['labels']) == 1: continue     # (a NEW one-label dimension is left unlabelled: nothing is repeated along it)
            if t['name'] in rl and not labs_eq(rl[t['name']]['labels'], t['labels']):
                return 'broadcast: axis %s has labels %r, the target axis %r' % (t['name'], rl[t['name']]['labels'], t['labels'])
    ac = cells(a)
    for c, v in cells(r).items():
        cd = dict(zip(dims, c))
        src = tuple(cd[d] if (d in cd and d not in changed) else hl(al[d]['labels'][0]) for d in adims)
        if src not in ac or not cell_eq(ac[src], v):
            return 'element at %r differs from the input element at the same labels' % (cd,)
    return None

def nontrivial(case, res):
    return res[0] == 'val' and res[1]['t'] == 'arr' and len(res[1]['v']['flat']) > 1
