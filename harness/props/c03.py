"""C03 - assignment writes exactly the addressed cells."""
import itertools, math
from common import *
from gen import *
from oracle_util import *
import ops
import props.c01 as c01
import numpy as np

ID = 'C03'
STRICT_ERR = False
N_QUICK = 600
N_THOROUGH = 8000

VALS = {'i': [7, -3, 0], 'f': [2.5, -0.75, float('nan')], 'b': [True, False], 'U': ['q', 'zz']}

def generate(rng, n, tier, stats):
    cases = []
    while len(cases) < n:
        dtype = rng.choice(['f', 'f', 'i', 'b', 'O'])
        a = rand_array(rng, stats=stats, dtype=dtype, attrs=rng.random() < 0.3, minlen=1 if rng.random() < 0.8 else 0)
        nd = len(a['dims'])
        stats['array_dtype'][dtype] += 1
        cast = rng.random() < 0.6
        if dtype == 'i' and nd >= 1 and a['flat'] and rng.random() < 0.25:
            # an int64 array holding integers that a float32 cannot hold, assigned a float32 value (scalar or array) with
            # cast=True: the array becomes float64, the cells that are not addressed keep their exact values
            a['flat'] = [16777217 + 2 * i for i in range(len(a['flat']))]
            size = len(a['flat'])
            mask = [rng.random() < 0.4 for _ in range(size)]
            if rng.random() < 0.6: rhs = {'scalar': 2.5, 'np': 'float32'}
            else: rhs = {'shape': [sum(mask)], 'dtype': 'f', 'flat': [0.5 + j for j in range(sum(mask))], 'np': 'float32'}
            stats['family']['float32_rhs'] += 1
            cases.append({'ins': [a], 'ops': [['putmask', mask, rhs, True, 'put']]})
            continue
        if nd >= 1 and rng.random() < 0.12:
            size = 1
            for l in a['labels']: size *= len(l)
            mask = [rng.random() < 0.4 for _ in range(size)]
            vk = rng.choice(['i', 'f', 'b', 'U']) if cast else (dtype if dtype in 'ifb' else rng.choice(['i', 'f', 'U']))
            if rng.random() < 0.7:
                rhs = {'scalar': rng.choice(VALS[vk])}
            else:
                k = sum(mask); vk2 = vk if vk != 'U' else 'f'
                rhs = {'shape': [k], 'dtype': vk2, 'flat': [rng.choice([x for x in VALS[vk2] if x == x]) for _ in range(k)]}
            stats['family']['ndmask'] += 1
            cases.append({'ins': [a], 'ops': [['putmask', mask, rhs, cast, rng.choice(['put', 'setitem']) if not cast else 'put']]})
            continue
        by = 'label' if rng.random() < 0.85 else 'position'
        spelling = rng.choice(['setitem', 'put', 'put', 'loc', 'ix', 'iloc', 'put_pos'])
        if cast and spelling not in ('put', 'put_pos'): spelling = 'put'
        mode = {'setitem': by, 'put': by, 'loc': 'label', 'iloc': 'position', 'put_pos': 'position',
                'ix': 'position' if by == 'label' else 'label'}[spelling]
        stats['spelling'][spelling] += 1; stats['mode'][mode] += 1
        k = rng.randint(0, nd); which = sorted(rng.sample(range(nd), k))
        idxs = {i: c01.rand_index(rng, a['labels'][i], a['axdtype'][i], mode, stats) for i in which}
        force_full_rhs = False
        if nd >= 3 and rng.random() < 0.4:
            # scalar + full slice + list / mask on three or more dimensions, all valid (numpy would move the indexed dimensions)
            idxs = c01.mixed_valid_indices(rng, a, mode, stats); which = sorted(idxs)
            force_full_rhs = rng.random() < 0.6
        if rng.random() < 0.5 or spelling in ('setitem', 'loc', 'ix', 'iloc'):
            m = (which[-1] + 1) if which else 0
            form = {'tuple': [idxs.get(i, 'full') for i in range(m)]}
        else:
            form = {'dict': [[a['dims'][i] if rng.random() < 0.6 else i, idxs[i]] for i in which]}
        # shape of the selection (None when the index is erroneous)
        exp = c01.expected(a, ['get', {'setitem': 'getitem', 'put': 'take', 'put_bc': 'take', 'put_pos': 'take_pos'}.get(spelling, spelling), form, None, False, by])
        vk = rng.choice(['i', 'f', 'b', 'U']) if cast else (dtype if dtype in 'ifb' else rng.choice(['i', 'f', 'U']))
        if not cast and dtype == 'f' and rng.random() < 0.3: vk = 'i'
        stats['kind_pair'][dtype + '<-' + vk + ('/cast' if cast else '')] += 1
        if force_full_rhs and vk == 'U': vk = 'f'
        if isinstance(exp, list) and (rng.random() < 0.45 or force_full_rhs) and vk != 'U':
            box = [len(p) for p in exp if isinstance(p, list)]
            shape = list(box)
            r = rng.random() if not force_full_rhs else 1.0      # the full box, one distinct value per cell
            if r < 0.3 and shape: shape = shape[1:]                       # trailing dims only
            elif r < 0.6 and shape: shape[rng.randrange(len(shape))] = 1   # a broadcast singleton
            size = 1
            for s in shape: size *= s
            pool = [x for x in VALS[vk] if x == x] + ([100 + i for i in range(6)] if vk == 'i' else [50.5 + i for i in range(6)] if vk == 'f' else [])
            rhs = {'shape': shape, 'dtype': vk, 'flat': [rng.choice(pool) for _ in range(size)]}
            stats['rhs']['array'] += 1
        else:
            rhs = {'scalar': rng.choice(VALS[vk])}
            stats['rhs']['scalar'] += 1
        inplace = rng.random() < 0.5
        if spelling == 'put' and len(which) <= 1 and rng.random() < 0.3:
            # put(..., broadcast=True) (NumPy-like pointwise indexing): with at most one indexed dimension it addresses the same
            # cells as the orthogonal form, through the other setter (_setvalues_broadcast) - cast / inplace must act the same
            spelling = 'put_bc'; stats['spelling']['put broadcast=True, <= 1 indexed dim' + ('/cast' if cast else '')] += 1
        cases.append({'ins': [a], 'ops': [['put', spelling, form, None, rhs, cast, inplace, by]]})
    return cases

def execute(c):
    ins = [mk_array(j) for j in c['ins']]
    before = ops.snapshot(ins[0])
    r = run_impl(lambda: ops.run_ops(ins, c['ops']))
    after = ops.snapshot(mk_array(c['ins'][0]) if False else ins[0])
    c['_operand_changed'] = (before != after)
    return r

def veq(cellv, pyv):
    """stored cell equals the assigned python value exactly (no truncation)"""
    if isinstance(pyv, float) and math.isnan(pyv): return cellv == {'nan': 1}
    if isinstance(cellv, dict): return False
    if isinstance(pyv, str) or isinstance(cellv, str): return cellv == pyv
    return float(cellv) == float(pyv)

def oracle(case, res):
    a = case['ins'][0]; op = case['ops'][0]
    if case.get('_operand_changed'):
        return 'the operand of a non-in-place assignment (or the copy protocol of the harness) was modified'
    arr = mk_array(a); obs = arr_json(arr)
    shape = [len(l) for l in a['labels']]
    if op[0] == 'putmask':
        _, mask, rhs, cast, _sp = op
        addressed = {}
        vals = None if 'scalar' in rhs else rhs['flat']
        k = 0
        for pos, (c, b) in enumerate(zip(itertools.product(*[range(n) for n in shape]), mask)):
            if b:
                addressed[c] = [rhs['scalar']] if vals is None else [vals[k if len(vals) > 1 else 0]]; k += 1
        if vals is not None and len(vals) not in (1, k): return None
    else:
        _, spelling, form, tol, rhs, cast, inplace, by = op
        exp = c01.expected(a, ['get', {'setitem': 'getitem', 'put': 'take', 'put_bc': 'take', 'put_pos': 'take_pos'}.get(spelling, spelling), form, None, False, by])
        if exp is None: return None
        if exp == 'IndexError':
            return None if res == ('err', 'IndexError') else 'absent label did not raise IndexError: %r' % (res[:2],)
        if any(isinstance(ix, dict) and 'sl' in ix for ix in (form.get('tuple') or [i for _, i in form.get('dict', [])])): return None
        kept = [i for i, p in enumerate(exp) if isinstance(p, list)]
        box = [len(exp[i]) for i in kept]
        if 'scalar' in rhs:
            bval = lambda bc: rhs['scalar']
        else:
            try:
                b = np.broadcast_to(np.array(rhs['flat'], dtype=object).reshape(rhs['shape']), box)
            except ValueError:
                return None      # right-hand side does not broadcast: outside the property
            bval = lambda bc: b[tuple(bc)]
        addressed = {}
        for bc in itertools.product(*[range(n) for n in box]):
            it = iter(bc)
            c = tuple(exp[i][next(it)] if isinstance(exp[i], list) else exp[i] for i in range(len(exp)))
            addressed.setdefault(c, []).append(bval(bc))
    if not cast:
        # without cast numpy's own (possibly lossy) conversion applies; the property only speaks of
        # which cells change: compare addressed set and untouched cells
        pass
    if res[0] == 'err':
        if not cast: return None
        return 'assignment with cast=True raised %s' % res[1]
    if res[1]['t'] != 'arr': return 'result is not an array'
    r = res[1]['v']
    if [ax['name'] for ax in r['axes']] != a['dims']: return 'dims changed'
    for ax, l, o in zip(r['axes'], a['labels'], obs['axes']):
        if not labs_eq(ax['labels'], l): return 'labels changed'
        if ax['attrs'] != o['attrs']: return 'axis metadata changed'
    if r['attrs'] != obs['attrs']: return 'metadata changed'
    if r['shape'] != shape: return 'shape changed'
    for pos, c in enumerate(itertools.product(*[range(n) for n in shape])):
        new, old = r['flat'][pos], obs['flat'][pos]
        if c in addressed:
            if cast and not any(veq(new, v) for v in addressed[c]):
                return 'addressed cell %r holds %r, assigned %r (truncated or lost)' % (c, new, addressed[c])
            if not cast and len(addressed[c]) >= 1 and r['kind'] == obs['kind'] and all(type(v) in (int, float) and v == v for v in addressed[c]) \
                    and obs['kind'] == 'f' and not any(veq(new, v) for v in addressed[c]):
                return 'addressed cell %r holds %r, assigned %r' % (c, new, addressed[c])
        else:
            same = (new == old) or (not isinstance(new, (dict, str, bool)) and not isinstance(old, (dict, str, bool)) and new is not None and old is not None and float(new) == float(old))
            if not same: return 'cell %r was not addressed but changed from %r to %r' % (c, old, new)
    return None

def nontrivial(case, res):
    return res[0] == 'val' and len(res[1]['v']['flat']) > 1
