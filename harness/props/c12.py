"""C12 - stack and concatenate join arrays without misaligning them."""
import itertools
from common import *
from gen import *
from oracle_util import *
import ops
import numpy as np
import random

ID = 'C12'
STRICT_ERR = False
N_QUICK = 500
N_THOROUGH = 6000

def family(rng, stats, concat_dim=None):
    nd = rng.randint(1, 3)
    dims = rng.sample(DIMPOOL, nd)
    square = rng.random() < 0.5
    n0 = rng.randint(1, 3)
    base = {}
    for d in dims:
        k = rng.choice(['i', 'f', 'O'])
        base[d] = (k, rand_labels(rng, n0 if square else rng.randint(1, 3), k, rng.choice(['inc', 'dec', 'shuf'])))
    narr = rng.randint(1, 4)
    arrays = []
    rels = []
    for i in range(narr):
        order = list(dims)
        if i > 0 and rng.random() < 0.3:
            rng.shuffle(order)
        labels, kinds = [], []
        for d in order:
            k, b = base[d]
            if d == concat_dim:
                l = rand_labels(rng, rng.randint(0, 3) if rng.random() < 0.2 else rng.randint(1, 3), k, 'shuf'); rel = 'cat'
            else:
                rel = rng.choice(['equal', 'equal', 'equal', 'permuted', 'overlap', 'disjoint']) if i > 0 else 'equal'
                if rel == 'equal': l = list(b)
                elif rel == 'permuted':
                    l = list(b); rng.shuffle(l)
                elif rel == 'overlap':
                    extra = rand_labels(rng, 5, k, 'shuf')
                    l = list(b[:-1]) + [x for x in extra if x not in b][:1]
                    if len(l) != len(b): l = list(b)
                else:
                    extra = rand_labels(rng, 8, k, 'shuf')
                    l = [x for x in extra if x not in b][:len(b)]
                    if len(l) != len(b): l = list(b)
            stats['secondary_relation'][rel] += 1
            labels.append(l); kinds.append(k)
        a = rand_array(rng, dims=order, lens=[len(l) for l in labels], dtype=rng.choice(['f', 'i']), attrs=rng.random() < 0.3)
        a['labels'] = labels; a['axdtype'] = kinds
        arrays.append(a)
        stats['dim_order']['same' if order == dims else 'different'] += 1
    stats['n_arrays'][narr] += 1; stats['square'][str(square)] += 1
    return arrays, dims

def generate(rng, n, tier, stats):
    cases = []
    while len(cases) < n:
        fam = rng.choice(['stack', 'concat'])
        align = rng.random() < 0.4; sort = align and rng.random() < 0.5
        stats['op'][fam] += 1; stats['align'][str(align)] += 1
        if fam == 'stack':
            arrays, dims = family(rng, stats)
            kk = rng.choice(['i', 'O'])
            keys = rand_labels(rng, len(arrays), kk, 'shuf')
            name = rng.choice([None, 'k', 'new', dims[0]] if rng.random() < 0.1 else [None, 'k', 'new'])
            as_dict = rng.random() < 0.35
            if as_dict and rng.random() < 0.5:
                # the dict's insertion order differs from the order asked for with keys=
                as_dict = list(range(len(arrays))); rng.shuffle(as_dict)
            stats['stack_input']['list' if as_dict is False else 'dict' if as_dict is True else 'dict+keys'] += 1
            cases.append({'ins': arrays, 'ops': [['stack', name, keys, kk, align, sort, as_dict]]})
        else:
            arrays, dims = family(rng, stats, concat_dim='__pick__')
            d = rng.choice(dims)
            arrays, dims = family(rng, stats, concat_dim=d)
            d = d if d in dims else dims[0]
            # regenerate with a real concat dim
            rng2 = random.Random(rng.random())
            arrays, dims = family(rng2, stats, concat_dim=None)
            d = rng2.choice(dims)
            for a in arrays:
                j = a['dims'].index(d)
                a['labels'][j] = rand_labels(rng2, rng2.randint(1, 3), a['axdtype'][j], 'shuf')
                size = 1
                for l in a['labels']: size *= len(l)
                a['flat'] = [float(x) + 100 * len(cases) % 7 for x in range(size)] if a['dtype'] == 'f' else list(range(size))
            r = d if rng.random() < 0.6 else arrays[0]['dims'].index(d)
            if not isinstance(r, str) and rng.random() < 0.35: r -= len(arrays[0]['dims'])      # the same axis, counted from the end
            stats['concat_axis']['name' if isinstance(r, str) else 'position' if r >= 0 else 'negative position'] += 1
            cases.append({'ins': arrays, 'ops': [['concatenate', r, align, sort]]})
    return cases

def execute(c):
    ins = [mk_array(j) for j in c['ins']]
    before = [ops.snapshot(x) for x in ins]
    r = run_impl(lambda: ops.run_ops(ins, c['ops']))
    c['_operand_changed'] = [i for i, (b, x) in enumerate(zip(before, ins)) if b != ops.snapshot(x)]
    return r

def _num_eq(v, w):
    return (v == w) or (not isinstance(v, (dict, str, bool)) and not isinstance(w, (dict, str, bool)) and float(v) == float(w))

def oracle(case, res):
    ins = case['ins']; o = case['ops'][0]
    if case.get('_operand_changed'): return 'input(s) %r modified' % case['_operand_changed']
    obs = [arr_json(mk_array(a)) for a in ins]
    dims0 = ins[0]['dims']
    same_set = all(sorted(a['dims']) == sorted(dims0) for a in ins)
    if not same_set: return None
    same_order = all(a['dims'] == dims0 for a in ins)
    if o[0] == 'stack':
        _, name, keys, kk, align, sort, as_dict = o
        if name is not None and name in dims0: return None      # must use concatenate: the property is silent
        sec_equal = all(labs_eq(a['labels'][a['dims'].index(d)], ins[0]['labels'][dims0.index(d)]) for a in ins for d in dims0)
        if res[0] == 'err':
            if not same_order: return None                       # refusing a different dimension order is allowed
            if sec_equal or align: return 'valid stack raised %s' % res[1]
            return None if res[1] == 'ValueError' else 'differing secondary axes: expected ValueError, got %s' % res[1]
        r = res[1]['v']
        if not sec_equal and not align:
            return 'secondary axes differ (labels or order) but stack did not raise ValueError'
        rd = obs_dims(r)
        if rd[1:] != dims0 and sorted(rd[1:]) != sorted(dims0): return 'dims %r' % rd
        if not labs_eq(r['axes'][0]['labels'], keys): return 'new axis labelled %r, expected %r' % (r['axes'][0]['labels'], keys)
        rc = cells(r)
        seen = set()
        for k, (a, ob) in enumerate(zip(ins, obs)):
            for c, v in cells(ob).items():
                cd = dict(zip(a['dims'], c))
                key = (hl(keys[k]),) + tuple(cd[d] for d in rd[1:])
                if key not in rc: return 'data of arrays[%d] at %r is missing' % (k, cd)
                if not _num_eq(rc[key], v): return 'slice at key %r holds %r at %r, arrays[%d] has %r' % (keys[k], rc[key], cd, k, v)
                seen.add(key)
        for key, v in rc.items():
            if key not in seen and v != {'nan': 1}: return 'value %r at %r belongs to no input' % (v, key)
        return None
    _, rr, align, sort = o
    d = rr if isinstance(rr, str) else dims0[rr]
    other = [x for x in dims0 if x != d]
    sec_equal = all(labs_eq(a['labels'][a['dims'].index(x)], ins[0]['labels'][dims0.index(x)]) for a in ins for x in other)
    if res[0] == 'err':
        if not same_order: return None
        if sec_equal or align: return 'valid concatenate raised %s' % res[1]
        return None if res[1] == 'ValueError' else 'differing secondary axes: expected ValueError, got %s' % res[1]
    r = res[1]['v']
    if not sec_equal and not align: return 'secondary axes differ (labels or order) but concatenate did not raise ValueError'
    if obs_dims(r) != dims0: return 'dims %r, expected %r' % (obs_dims(r), dims0)
    jd = dims0.index(d)
    catl = [l for a in ins for l in a['labels'][a['dims'].index(d)]]
    if not labs_eq(r['axes'][jd]['labels'], catl): return 'labels along %s are %r, expected the concatenation %r' % (d, r['axes'][jd]['labels'], catl)
    # compare by position along d, by label elsewhere
    rl = obs_labels(r); shape = [len(l) for l in rl]
    rflat = r['flat']
    def rget(posd, labs):
        idx = []
        for j, x in enumerate(dims0):
            idx.append(posd if j == jd else rl[j].index(labs[x]))
        k = 0
        for j, i in enumerate(idx): k = k * shape[j] + i
        return rflat[k]
    off = 0; seen = set()
    for a, ob in zip(ins, obs):
        la = [[hl(x) for x in l] for l in a['labels']]
        n = len(la[a['dims'].index(d)])
        for pos in itertools.product(*[range(len(l)) for l in la]):
            labs = {x: la[j][pos[j]] for j, x in enumerate(a['dims'])}
            pd = off + pos[a['dims'].index(d)]
            try: got = rget(pd, labs)
            except ValueError: return 'label %r of an input is missing from the result' % (labs,)
            k = 0
            for j, i in enumerate(pos): k = k * len(la[j]) + i
            if not _num_eq(got, ob['flat'][k]): return 'value at %r (position %d along %s) is %r, input has %r' % (labs, pd, d, got, ob['flat'][k])
        off += n
    return None

def nontrivial(case, res):
    return res[0] == 'val' and len(case['ins']) > 1
