"""C07 - reindexing moves data together with its labels."""
from common import *
from gen import *
from oracle_util import *
import numpy as np

ID = 'C07'
STRICT_ERR = False
N_QUICK = 500
N_THOROUGH = 6000

def new_labels(rng, labs, kind, stats):
    fam = rng.choice(['subset', 'superset', 'disjoint', 'permuted', 'repeated', 'empty', 'same', 'mixed'])
    stats['new_labels'][fam] += 1
    other = {'i': [40, 41, 55, -9], 'f': [100.5, -20.25, 0.125], 'O': ['zz', 'yy', 'xx']}[kind]
    if kind == 'i' and rng.random() < 0.3: other = [x + 0.5 for x in labs[:2]] + [40]
    if fam == 'subset': return rng.sample(labs, rng.randint(0, len(labs)))
    if fam == 'superset':
        l = list(labs) + rng.sample(other, rng.randint(1, min(2, len(other)))); rng.shuffle(l); return l
    if fam == 'disjoint': return rng.sample(other, rng.randint(1, len(other)))
    if fam == 'permuted':
        l = list(labs); rng.shuffle(l); return l
    if fam == 'repeated':
        return [rng.choice(labs + other) for _ in range(rng.randint(2, 4))] if labs else []
    if fam == 'empty': return []
    if fam == 'same': return list(labs)
    l = rng.sample(labs, rng.randint(0, len(labs))) + rng.sample(other, rng.randint(0, min(2, len(other)))); rng.shuffle(l); return l

def generate(rng, n, tier, stats):
    cases = []
    while len(cases) < n:
        dtype = rng.choice(['f', 'i', 'i', 'b', 'f'])
        a = rand_array(rng, stats=stats, dtype=dtype, ndim=rng.randint(1, 3), minlen=1 if rng.random() < 0.9 else 0,
                       attrs=rng.random() < 0.4, nan_p=0.1 if dtype == 'f' else 0)
        nd = len(a['dims']); i = rng.randrange(nd)
        labs, kind = a['labels'][i], a['axdtype'][i]
        news = new_labels(rng, labs, kind, stats)
        if kind == 'i' and labs and rng.random() < 0.15:
            # large integer labels next to each other (date codes, identifiers): a label is on the axis or it is not - exactly
            off = 20150100; labs = [x + off for x in labs]; a['labels'][i] = labs
            news = [x + off if isinstance(x, int) else x + off for x in news]; stats['large_int_labels']['yes'] += 1
        nk = guess_kind(news) if news else 'f'
        if kind == 'O': nk = 'O'
        fam = rng.choice(['plain', 'plain', 'fill', 'raise', 'method', 'axisobj', 'like'])
        stats['family'][fam] += 1
        r = a['dims'][i] if rng.random() < 0.6 else i
        if fam == 'plain':
            ops = [['reindex', news, nk, r, None, False, None, rng.choice(['list', 'array'])]]; ins = [a]
        elif fam == 'fill':
            ops = [['reindex', news, nk, r, rng.choice([0, -1, 2.5, True]), False, None, 'array']]; ins = [a]
        elif fam == 'raise':
            ops = [['reindex', news, nk, r, None, True, None, 'array']]; ins = [a]
        elif fam == 'method':
            if kind == 'O' or not news: continue
            news = [x + rng.choice([0, 0.25, -0.25, 0.5]) for x in news]; nk = 'f'
            # (raise_error=True refuses a missing label whatever the method)
            ops = [['reindex', news, nk, r, None, rng.random() < 0.3, rng.choice(['left', 'right']), 'array']]; ins = [a]
        elif fam == 'axisobj':
            ops = [['reindex_axisobj', {'name': a['dims'][i], 'labels': news, 'kind': nk}]]; ins = [a]
        else:
            b = rand_array(rng, minlen=1, dims=rng.sample(['p', 'q', 'r', 's'], rng.randint(1, 3)))
            shared = rng.sample(range(nd), rng.randint(1, nd))
            bd = list(b['dims'])
            for k, j in enumerate(shared[:len(bd)]):
                if a['dims'][j] in bd: continue
                bd[k] = a['dims'][j]
                nl = new_labels(rng, a['labels'][j], a['axdtype'][j], stats)
                if len(set(map(str, nl))) != len(nl) or not nl: nl = list(a['labels'][j])
                b['labels'][k] = nl; b['axdtype'][k] = guess_kind(nl) if a['axdtype'][j] != 'O' else 'O'
            if len(set(bd)) != len(bd): continue
            b['dims'] = bd
            size = 1
            for l in b['labels']: size *= len(l)
            b['flat'] = [float(x) for x in range(size)]
            ops = [['reindex_like', 1]]; ins = [a, b]
        cases.append({'ins': ins, 'ops': ops})
    return cases

def _find(labs, v):
    for j, l in enumerate(labs):
        if isinstance(l, str) != isinstance(v, str): continue
        if l == v: return j
    return None

def oracle(case, res):
    a = case['ins'][0]; op = case['ops'][0]
    obs = arr_json(mk_array(a))
    if op[0] == 'reindex_like':
        return oracle_like(case, res, obs)
    if op[0] == 'reindex':
        _, news, nk, r, fill, raise_error, method, as_ = op
    else:
        news, r, fill, raise_error, method = op[1]['labels'], op[1]['name'], None, False, None
    i = a['dims'].index(r) if isinstance(r, str) else r
    labs = a['labels'][i]
    if not labs and news: return None     # reindexing from an empty axis: see KNOWN_FINDINGS (F20)
    found = [_find(labs, v) for v in news]
    if method is not None:
        # "method='left'/'right' takes the neighbouring label in sorted order as numpy.searchsorted would"
        if any(isinstance(x, str) for x in labs) != any(isinstance(x, str) for x in news) or not news: return None
        if res[0] == 'err': return None if raise_error else 'reindexing with method=%s raised %s' % (method, res[1])
        try:
            order = sorted(range(len(labs)), key=lambda j: labs[j]); srt = [labs[j] for j in order]
            import bisect
            src = []
            for v in news:
                c = bisect.bisect_left(srt, v) if method == 'left' else bisect.bisect_right(srt, v)
                src.append(order[min(c, len(labs) - 1)])
        except TypeError: return None
        if raise_error and any(labs[sj] != v for sj, v in zip(src, news)):
            return 'raise_error=True with method=%s and a new label that is not on the axis did not raise IndexError' % method
        rr = res[1]['v']
        if not labs_eq(rr['axes'][i]['labels'], news): return 'method=%s: axis is %r, expected exactly %r' % (method, rr['axes'][i]['labels'], news)
        arr = mk_array(a)
        want = np.take(np.asarray(arr.values), src, axis=i).ravel().tolist()
        got = rr['flat']
        if len(want) != len(got): return 'method=%s: shape differs' % method
        for g, w in zip(got, want):
            wn = isinstance(w, float) and w != w
            if isinstance(g, dict) != wn or (not wn and not isinstance(g, dict) and float(g) != float(w)):
                return 'method=%s: slices are not those of the searchsorted(side=%s) neighbours (positions %r): got %r, expected %r' % (method, method, src, got, want)
        return None
    missing = any(f is None for f in found)
    if raise_error and missing:
        return None if res == ('err', 'IndexError') else 'raise_error=True with a new label did not raise IndexError: %r' % (res[:2],)
    if res[0] == 'err': return 'valid reindexing raised %s' % res[1]
    rr = res[1]['v']
    if obs_dims(rr) != a['dims']: return 'dims changed'
    if not labs_eq(rr['axes'][i]['labels'], news): return 'axis is %r, expected exactly %r' % (rr['axes'][i]['labels'], news)
    for j, ax in enumerate(rr['axes']):
        if j != i and not labs_eq(ax['labels'], a['labels'][j]): return 'another axis changed'
    if rr['attrs'] != obs['attrs']: return 'metadata lost'
    ac = cells(obs); rc = cells(rr)
    fillv = {'nan': 1} if fill is None else fill
    import itertools
    other = [[hl(l) for l in a['labels'][j]] for j in range(len(a['dims']))]
    for pos in itertools.product(*[range(len(news)) if j == i else range(len(other[j])) for j in range(len(other))]):
        key_new = tuple(hl(news[p]) if j == i else other[j][p] for j, p in enumerate(pos))
        # with repeated new labels several positions share a key: compare by position instead
        flat_index = 0
        for j, p in enumerate(pos):
            flat_index = flat_index * (len(news) if j == i else len(other[j])) + p
        got = rr['flat'][flat_index]
        f = found[pos[i]]
        if f is None:
            want = fillv
            ok = (got == want) or (not isinstance(got, dict) and not isinstance(want, dict) and float(got) == float(want))
        else:
            src = tuple(hl(labs[f]) if j == i else other[j][p] for j, p in enumerate(pos))
            want = ac[src]
            ok = (got == want) or (not isinstance(got, (dict, str)) and not isinstance(want, (dict, str)) and float(got) == float(want))
        if not ok: return 'slice at new label %r: got %r, expected %r' % (news[pos[i]], got, want)
    if missing and fill is None and obs['kind'] == 'i' and rr['kind'] != 'f':
        return 'integer data not promoted to float when filled with NaN'
    return None

def oracle_like(case, res, obs):
    """reindex_like applies the single-axis rule to every dimension shared with the template"""
    import itertools
    a = case['ins'][0]; t = case['ins'][case['ops'][0][1]]
    if res[0] == 'err': return 'reindex_like raised %s' % res[1]
    rr = res[1]['v']
    if obs_dims(rr) != a['dims']: return 'dims changed'
    want_labels = []
    for j, d in enumerate(a['dims']):
        want_labels.append(t['labels'][t['dims'].index(d)] if d in t['dims'] else a['labels'][j])
    for j, ax in enumerate(rr['axes']):
        if not labs_eq(ax['labels'], want_labels[j]):
            return 'axis %s is %r, expected exactly %r (template)' % (ax['name'], ax['labels'], want_labels[j])
    ac = cells(obs)
    flat = rr['flat']
    for k, pos in enumerate(itertools.product(*[range(len(l)) for l in want_labels])):
        key = tuple(hl(want_labels[j][p]) for j, p in enumerate(pos))
        # a label of another numeric type that compares equal addresses the same cell
        got = flat[k]
        if key in ac:
            w = ac[key]
            ok = (got == w) or (not isinstance(got, (dict, str)) and not isinstance(w, (dict, str)) and float(got) == float(w))
            if not ok: return 'value at %r is %r, expected %r' % (key, got, w)
        elif got != {'nan': 1}:
            return 'value %r at labels %r the array did not have' % (got, key)
    return None

def nontrivial(case, res):
    return res[0] == 'val' and len(res[1]['v']['flat']) > 1
