"""C14 - Dataset-wide operations equal the per-variable operations."""
import itertools, copy, json
from common import *
from gen import *
from oracle_util import *
import ops
import numpy as np

ID = 'C14'
N_QUICK = 400
N_THOROUGH = 4000
HEADER = ('From DA Require Import Prelude NDArray Array PyRT.\n'
          'From DA.Model Require Import Value Reshape Indexing Align Transform Flatten Dataset DatasetOps.\nOpen Scope string_scope.\n')
RUNNER = 'wcase_ok'
SHOW = 'wcase_show'
STRICT_ERR = False

def gen_dataset(rng, stats, axes_pool=None, keys=None):
    """variables over partially overlapping subsets of a pool of shared axes (some 0-d)"""
    if axes_pool is None:
        names = rng.sample(DIMPOOL, rng.randint(1, 3))
        axes_pool = {}
        for d in names:
            k = rng.choice(['i', 'f', 'O'] if stats is not None else ['i', 'f'])
            axes_pool[d] = (k, rand_labels(rng, rng.randint(1, 4), k, rng.choice(['inc', 'dec', 'shuf'])))
    names = list(axes_pool)
    nvar = rng.randint(1, 4)
    keys = keys or rng.sample(['a', 'b', 'c', 'v', 'w'], nvar)
    vars_ = []
    for k in keys:
        ds_ = rng.sample(names, rng.randint(0, len(names)))
        labels = [list(axes_pool[d][1]) for d in ds_]; kinds = [axes_pool[d][0] for d in ds_]
        a = rand_array(rng, dims=ds_, lens=[len(l) for l in labels], dtype=rng.choice(['f', 'f', 'i']), attrs=rng.random() < 0.4)
        a['labels'] = labels; a['axdtype'] = kinds
        vars_.append([k, a])
    if stats is not None:
        stats['n_variables'][len(vars_)] += 1
        stats['zero_d_variables'][sum(1 for _, a in vars_ if not a['dims'])] += 1
    return {'vars': vars_, 'attrs': rand_meta(rng)}, axes_pool

def mk_dataset(j):
    D = da()
    ds = D.Dataset()
    for k, a in j['vars']: ds[k] = mk_array(a)
    ds.attrs.update(j['attrs'])
    return ds

def generate(rng, n, tier, stats):
    cases = []
    while len(cases) < n:
        ds, pool = gen_dataset(rng, stats)
        used = []
        for _, a in ds['vars']:
            for d in a['dims']:
                if d not in used: used.append(d)
        if not used: continue
        fam = rng.choice(['take', 'take', 'reduce', 'take_axis', 'sort_axis', 'reindex', 'interp', 'scalar_op', 'binop', 'stack', 'concat'])
        d = rng.choice(used); i = used.index(d); r = d if rng.random() < 0.6 else i
        kind, labs = pool[d]
        stats['family'][fam] += 1
        lacking = sum(1 for _, a in ds['vars'] if d not in a['dims'])
        stats['variables_lacking_the_dim'][min(lacking, 3)] += 1
        inputs = [ds]
        if fam == 'take':
            import props.c01 as c01
            spelling = rng.choice(['take', 'take', 'ix', 'loc', 'sel', 'isel', 'getitem'])
            mode = 'position' if spelling in ('ix', 'isel') else 'label'
            k = rng.randint(1, len(used)); which = sorted(rng.sample(range(len(used)), k))
            idxs = {j: c01.rand_index(rng, pool[used[j]][1], pool[used[j]][0], mode, stats, allow_slice=(pool[used[j]][0] != 'O')) for j in which}
            if spelling in ('sel', 'isel') or rng.random() < 0.5:
                form = {'dict': [[used[j], idxs[j]] for j in which]}
            else:
                form = {'tuple': [idxs.get(j, 'full') for j in range(which[-1] + 1)]}
            if spelling == 'getitem' and 'dict' in form: spelling = 'take'
            op = ['take', spelling, form]
        elif fam == 'reduce':
            op = ['reduce', rng.choice(['mean', 'std', 'var', 'median', 'sum']), r]
            if rng.random() < 0.15: op[2] = None; stats['reduce_axis_none']['yes'] += 1      # over all dimensions: every variable becomes a scalar
        elif fam == 'take_axis':
            if rng.random() < 0.5: op = ['take_axis', [rng.choice(labs) for _ in range(rng.randint(0, 3))], r, 'label']
            else: op = ['take_axis', [rng.randrange(-len(labs), len(labs)) for _ in range(rng.randint(0, 3))], r, 'position']
        elif fam == 'sort_axis': op = ['sort_axis', r]
        elif fam == 'reindex':
            import props.c07 as c07
            if rng.random() < 0.12 and kind != 'O':
                # the reindexed dimension is EMPTY in the dataset (every new label is missing)
                pool2 = dict(pool); pool2[d] = (kind, [])
                ds, pool = gen_dataset(rng, stats, axes_pool=pool2)
                if not any(d in a['dims'] for _, a in ds['vars']): continue
                used = []
                for _, a in ds['vars']:
                    for dd in a['dims']:
                        if dd not in used: used.append(dd)
                i = used.index(d); r = d if rng.random() < 0.6 else i; labs = []; inputs = [ds]
                news = [1, 2] if kind == 'i' else [0.5, 2.0]
                stats['reindex_from_empty_axis']['yes'] += 1
            else:
                news = c07.new_labels(rng, labs, kind, stats)
            if len(set(map(str, news))) != len(news): continue
            method = rng.choice([None, None, 'left', 'right'])
            stats['reindex_method'][str(method)] += 1
            op = ['reindex', news, guess_kind(news) if kind != 'O' else 'O', r, rng.choice([None, None, 0]), rng.random() < 0.15, method]
        elif fam == 'interp':
            if kind == 'O': continue
            lo, hi = min(labs), max(labs)
            pts = sorted(set(rng.choice([lo - 1, lo, hi, hi + 2, (lo + hi) / 2.0, lo + 0.25]) for _ in range(rng.randint(1, 4))))
            op = ['interp', pts, 'f', r, rng.choice([None, -9.0]), rng.choice([None, 7.5])]
        elif fam == 'scalar_op':
            o = rng.choice(['+', '-', '*', '/']); refl = rng.random() < 0.5
            op = ['scalar_op', o, rng.choice([2, 4, 0.5]), refl]
            for _, a in ds['vars']:
                a['flat'] = [rng.choice([1, 2, 4, -2]) if a['dtype'] == 'i' else rng.choice([1.0, 2.0, 0.5, -4.0]) for _ in a['flat']]
        elif fam == 'binop':
            # rebuild ds2 variables over ds's per-key dims with ds2's pool labels
            pool2 = {x: (pool[x][0], rng.sample(pool[x][1], max(1, len(pool[x][1]) - 1)) + ([max(pool[x][1]) + 5] if pool[x][0] != 'O' else ['zz'])) for x in pool}
            vars2 = []
            for k2, a1 in ds['vars'][:rng.randint(1, len(ds['vars']))]:
                labels = [list(pool2[x][1]) for x in a1['dims']]
                a2 = rand_array(rng, dims=list(a1['dims']), lens=[len(l) for l in labels], dtype=a1['dtype'])
                a2['labels'] = labels; a2['axdtype'] = [pool2[x][0] for x in a1['dims']]
                vars2.append([k2, a2])
            ds2 = {'vars': vars2, 'attrs': {}}
            o = rng.choice(['+', '-', '*'])
            op = ['binop', o]; inputs = [ds, ds2]
        elif fam in ('stack', 'concat'):
            others = []
            for _ in range(rng.randint(1, 2)):
                vars2 = []
                newlabs = rand_labels(rng, rng.randint(1, 3), kind, 'shuf')
                for k2, a1 in ds['vars']:
                    a2 = copy.deepcopy(a1)
                    if fam == 'concat' and d in a2['dims']:
                        j = a2['dims'].index(d)
                        a2['labels'][j] = list(newlabs)
                        size = 1
                        for l in a2['labels']: size *= len(l)
                        a2['flat'] = [float(x) if a2['dtype'] == 'f' else x for x in range(size)]
                    else:
                        a2['flat'] = [v + 100 if not isinstance(v, bool) else v for v in a2['flat']]
                    vars2.append([k2, a2])
                others.append({'vars': vars2, 'attrs': {}})
            inputs = [ds] + others
            if fam == 'stack': op = ['stack', 'k', rand_labels(rng, len(inputs), rng.choice(['i', 'O']), 'shuf')]
            else:
                # variables without the dimension are the same in every dataset (they are to be left unchanged)
                for o_ in others:
                    for (k1, a1), (k2, a2) in zip(ds['vars'], o_['vars']):
                        if d not in a1['dims']: a2['flat'] = list(a1['flat'])
                op = ['concat', r]         # by name or by position IN THE DATASET
        cases.append({'inputs': inputs, 'op': op})
    return cases

def run_op(dss, op):
    D = da()
    ds = dss[0]; n = op[0]
    if n == 'take':
        _, spelling, form = op
        idx, kw = ops.py_form(form)
        if spelling == 'take': return ds.take(indices=idx)
        if spelling == 'getitem': return ds.take(indices=idx)
        if spelling in ('ix', 'loc'): return getattr(ds, spelling)[idx]
        return getattr(ds, spelling)(**idx)
    if n == 'reduce': return getattr(ds, op[1])(axis=op[2])
    if n == 'take_axis':
        return ds.take_axis([ops.py_label(x) for x in op[1]], axis=op[2]) if op[3] == 'label' else ds.take_axis(list(op[1]), axis=op[2], indexing='position')
    if n == 'sort_axis': return ds.sort_axis(op[1])
    if n == 'reindex':
        kw = {} if op[4] is None else {'fill_value': op[4]}
        if len(op) > 6 and op[6]: kw['method'] = op[6]
        return ds.reindex_axis(ops.labs_np(op[1], op[2]), axis=op[3], raise_error=op[5], **kw)
    if n == 'interp':
        kw = {}
        if op[4] is not None: kw['left'] = op[4]
        if op[5] is not None: kw['right'] = op[5]
        return ds.interp_axis(ops.labs_np(op[1], op[2]), axis=op[3], **kw)
    if n == 'scalar_op': return ops.py_binop(op[1], op[2], ds) if op[3] else ops.py_binop(op[1], ds, op[2])
    if n == 'binop': return ops.py_binop(op[1], ds, dss[1])
    if n == 'stack': return D.stack_ds(list(dss), axis=op[1], keys=[ops.py_label(k) for k in op[2]])
    if n == 'concat': return D.concatenate_ds(list(dss), axis=op[1])
    raise Unsupported(n)

def per_variable(v, dss, op, key):
    """the corresponding DimArray operation on one variable (None = must be left unchanged)"""
    D = da(); n = op[0]
    def has(d): return (d in v.dims) if isinstance(d, str) else True
    ds = dss[0]
    def dname(r): return r if isinstance(r, str) else ds.dims[r]
    if n == 'take':
        _, spelling, form = op
        idx, kw = ops.py_form(form)
        if isinstance(idx, tuple): idx = {ds.dims[j]: ix for j, ix in enumerate(idx)}
        idx = {k: x for k, x in idx.items() if k in v.dims}
        if not idx: return None          # the variable has none of the indexed dimensions: left unchanged (metadata included)
        mode = 'position' if spelling in ('ix', 'isel') else 'label'
        return v.take(idx, indexing=mode)
    if n == 'reduce' and op[2] is None: return getattr(v, op[1])(axis=None)
    if n == 'reduce': return getattr(v, op[1])(axis=dname(op[2])) if dname(op[2]) in v.dims else None
    if n == 'take_axis':
        d = dname(op[2])
        if d not in v.dims: return None
        return v.take_axis([ops.py_label(x) for x in op[1]], axis=d) if op[3] == 'label' else v.take_axis(list(op[1]), axis=d, indexing='position')
    if n == 'sort_axis': return v.sort_axis(dname(op[1])) if dname(op[1]) in v.dims else None
    if n == 'reindex':
        d = dname(op[3])
        if d not in v.dims: return None
        kw = {} if op[4] is None else {'fill_value': op[4]}
        if len(op) > 6 and op[6]: kw['method'] = op[6]
        return v.reindex_axis(ops.labs_np(op[1], op[2]), axis=d, raise_error=op[5], **kw)
    if n == 'interp':
        d = dname(op[3])
        if d not in v.dims: return None
        kw = {}
        if op[4] is not None: kw['left'] = op[4]
        if op[5] is not None: kw['right'] = op[5]
        return v.interp_axis(ops.labs_np(op[1], op[2]), axis=d, **kw)
    if n == 'scalar_op': return ops.py_binop(op[1], op[2], v) if op[3] else ops.py_binop(op[1], v, op[2])
    if n == 'binop': return ops.py_binop(op[1], v, dict.__getitem__(dss[1], key)) if key in dss[1].keys() else 'absent'
    if n == 'stack': return D.stack([dict.__getitem__(x, key) for x in dss], axis=op[1], keys=[ops.py_label(k) for k in op[2]])
    if n == 'concat':
        d = dname(op[1])
        if d not in v.dims: return None
        return D.concatenate([dict.__getitem__(x, key) for x in dss], axis=d)

def observe_ds(ds):
    import props.c13 as c13
    return {'obs': c13.observe(ds), 'attrs': meta_json(ds.attrs)}

def execute(c):
    dss = [mk_dataset(j) for j in c['inputs']]
    before = [json.dumps(observe_ds(x), sort_keys=True, default=str) for x in dss]
    try:
        with warnings.catch_warnings():
            warnings.simplefilter('ignore')
            with np.errstate(all='ignore'):
                r = run_op(dss, c['op'])
        res = ('val', observe_ds(r))
        # per-variable reference, computed on fresh copies
        ref = {}
        fresh = [mk_dataset(j) for j in c['inputs']]
        for k in fresh[0].keys():
            try:
                with warnings.catch_warnings():
                    warnings.simplefilter('ignore')
                    with np.errstate(all='ignore'):
                        pv = per_variable(dict.__getitem__(fresh[0], k), fresh, c['op'], k)
                if pv is None: ref[k] = 'unchanged'
                elif isinstance(pv, str): ref[k] = pv
                else: ref[k] = value_json(pv)
            except Unsupported: raise
            except Exception as e: ref[k] = 'error:' + type(e).__name__
        c['_ref'] = ref
    except Unsupported: raise
    except Exception as e:
        nm = type(e).__name__
        res = ('err', nm if nm in EXN else 'OtherError')
    c['_changed'] = [i for i, (b, x) in enumerate(zip(before, dss)) if b != json.dumps(observe_ds(x), sort_keys=True, default=str)]
    return res

def cq_dataset(j):
    return '(%s, %s)' % (cq_list(['(%s, %s)' % (cq_str(k), cq_arr_in(a)) for k, a in j['vars']]), cq_meta(j['attrs']))

def coq_case(c, res):
    import props.c13 as c13
    op = c['op']; n = op[0]
    if n == 'take':
        _, spelling, form = op
        w = '(WTake %s TolNone false)' % ops.cq_form(form)
    elif n == 'reduce' and op[2] is None: return None      # axis=None: the per-variable DimArray reduction is the reference (oracle)
    elif n == 'reduce': w = '(WReduce %s %s)' % (ops._RED[op[1]], cq_axref(op[2]))
    elif n == 'take_axis':
        w = ('(WTakeAxisLabel %s %s)' % (ops.cq_labs(op[1]), cq_axref(op[2]))) if op[3] == 'label' else '(WTakeAxisPos %s %s)' % (cq_list([cq_z(z) for z in op[1]]), cq_axref(op[2]))
    elif n == 'sort_axis': w = '(WSortAxis %s)' % cq_axref(op[1])
    elif n == 'reindex':
        if len(op) > 6 and op[6]: return None       # method left / right: the per-variable DimArray operation is the reference (oracle)
        cc, fk = ops.cq_fill(float('nan') if op[4] is None else op[4])
        w = '(WReindex %s %s %s %s %s %s)' % (cq_kind(op[2] if op[2] != 'O' else 'U'), ops.cq_labs(op[1]), cq_axref(op[3]), cc, fk, 'true' if op[5] else 'false')
    elif n == 'interp':
        cf = lambda v: 'CNaN' if v is None else cq_cell(float(v))
        w = '(WInterp %s %s %s %s %s)' % (cq_kind(op[2]), ops.cq_labs(op[1]), cq_axref(op[3]), cf(op[4]), cf(op[5]))
    elif n == 'scalar_op':
        cc, k = ops.cq_fill(op[2]); w = '(WScalarOp %s %s %s %s)' % (ops._BINOP[op[1]], cc, k, 'true' if op[3] else 'false')
    elif n == 'binop': w = '(WBinop %s)' % ops._BINOP[op[1]]
    elif n == 'stack': w = '(WStack %s %s %s)' % (cq_str(op[1]), cq_kind(guess_kind(op[2]) if not isinstance(op[2][0], str) else 'O'), ops.cq_labs(op[2]))
    else: w = '(WConcat %s)' % cq_axref(op[1])
    if res[0] == 'val':
        obs = res[1]['obs']
        if n == 'reduce' and op[1] == 'std':
            # the model computes the variance: compare through the square
            from fractions import Fraction
            obs = copy.deepcopy(obs)
            d = op[2] if isinstance(op[2], str) else None
            dsdims = []
            for _, a in c['inputs'][0]['vars']:
                for x in a['dims']:
                    if x not in dsdims: dsdims.append(x)
            d = d or dsdims[op[2]]
            had = {k for k, a in c['inputs'][0]['vars'] if d in a['dims']}
            for v in obs['vars']:
                if v['key'] in had:
                    v['arr']['flat'] = [x if isinstance(x, dict) else Fraction(*float(x).as_integer_ratio()) ** 2 for x in v['arr']['flat']]
        e = '(WVal %s %s)' % (c13.cq_obs(obs), cq_meta(res[1]['attrs']))
    else: e = 'WAnyErr'
    return '(%s, %s, %s)' % (cq_list([cq_dataset(j) for j in c['inputs']]), w, e)

def close(a, b):
    if a == b: return True
    if isinstance(a, dict) or isinstance(b, dict) or isinstance(a, str) or isinstance(b, str) or a is None or b is None: return False
    return abs(float(a) - float(b)) <= 1e-9 * (1 + abs(float(b)))

def oracle(c, res):
    op = c['op']; n = op[0]
    if c.get('_changed'): return 'input dataset(s) %r modified' % c['_changed']
    if res[0] == 'err':
        ref = c.get('_ref')
        return None      # whether the per-variable operation also fails is decided below only for successes
    o = res[1]['obs']
    for v in o['vars']:
        if not all(v['shared']): return 'result variable %r does not share the result dataset\'s axes' % v['key']
    ref = c['_ref']
    got = {v['key']: v['arr'] for v in o['vars']}
    orig = {k: arr_json(mk_array(a)) for k, a in c['inputs'][0]['vars']}
    for k, want in ref.items():
        if want == 'absent':
            if k in got: return 'variable %r has no counterpart in the other dataset but appears in the result' % k
            continue
        if isinstance(want, str) and want.startswith('error:'): return 'per-variable operation fails (%s) but the Dataset operation succeeded' % want
        if k not in got: return 'variable %r missing from the result' % k
        g = got[k]
        if want == 'unchanged': w = orig[k]
        elif want['t'] == 'arr': w = want['v']
        else: w = {'axes': [], 'shape': [], 'kind': None, 'flat': [want['v']], 'attrs': {}}
        if [a['name'] for a in g['axes']] != [a['name'] for a in w['axes']]: return 'variable %r: dims %r, per-variable operation gives %r' % (k, [a['name'] for a in g['axes']], [a['name'] for a in w['axes']])
        for ga, wa in zip(g['axes'], w['axes']):
            if not labs_eq(ga['labels'], wa['labels']): return 'variable %r: axis %s labels differ from the per-variable operation' % (k, ga['name'])
        if len(g['flat']) != len(w['flat']) or not all(close(x, y) for x, y in zip(g['flat'], w['flat'])):
            return 'variable %r: values differ from the per-variable operation' % k
        # metadata of a variable: untouched when the variable is left unchanged, and what the DimArray operation gives otherwise
        if want == 'unchanged' and g['attrs'] != orig[k]['attrs']:
            return 'variable %r lacks the affected dimension but lost / changed its metadata: %r -> %r' % (k, orig[k]['attrs'], g['attrs'])
        if want != 'unchanged' and want['t'] == 'arr' and g['attrs'] != w['attrs']:
            return 'variable %r: metadata %r, the per-variable operation gives %r' % (k, g['attrs'], w['attrs'])
    if n in ('take', 'take_axis', 'sort_axis', 'reindex', 'interp') and res[1]['attrs'] != c['inputs'][0]['attrs']:
        return 'dataset metadata not carried over by %s' % n
    return None

def nontrivial(c, res):
    return res[0] == 'val' and len(c['inputs'][0]['vars']) > 1
