"""C17 - axis-wise selection and missing-value handling keep slices with their labels."""
import itertools, math
from common import *
from gen import *
from oracle_util import *
import ops
import numpy as np

ID = 'C17'
STRICT_ERR = False
N_QUICK = 500
N_THOROUGH = 6000

def with_nans(rng, a, stats):
    lens = [len(l) for l in a['labels']]; nd = len(lens)
    pat = rng.choice(['none', 'some', 'slices', 'all'])
    stats['nan_pattern'][pat] += 1
    if pat == 'some': a['flat'] = [float('nan') if rng.random() < 0.3 else v for v in a['flat']]
    elif pat == 'all': a['flat'] = [float('nan')] * len(a['flat'])
    elif pat == 'slices' and nd:
        d = rng.randrange(nd); js = [j for j in range(lens[d]) if rng.random() < 0.5]
        for k, c in enumerate(itertools.product(*[range(x) for x in lens])):
            if c[d] in js: a['flat'][k] = float('nan')
    return a

def with_infs(rng, a, stats):
    # +inf / -inf are ordinary float data, not missing values: fillna leaves them, dropna does not count them (oracle only: the
    # model has exact rationals and NaN)
    if a['dtype'] == 'f' and a['flat'] and rng.random() < 0.2:
        a['flat'] = [(float('inf') if rng.random() < 0.5 else float('-inf')) if (v == v and rng.random() < 0.3) else v for v in a['flat']]
        stats['infinite_cells']['yes'] += 1
    return a

def _iv(v): return int(v) if isinstance(v, (int, float)) and v == v and abs(v) < 1e15 else 0

def generate(rng, n, tier, stats):
    cases = []
    while len(cases) < n:
        fam = rng.choice(['sort_axis', 'take_axis', 'compress_axis', 'dropna', 'dropna', 'fillna', 'setna', 'setna_mask'])
        stats['family'][fam] += 1
        nd = rng.randint(1, 4)
        dtype = 'f' if fam in ('dropna', 'fillna') else rng.choice(['f', 'i'])
        a = rand_array(rng, stats=stats, dtype=dtype, ndim=nd, minlen=1, maxlen=4, orders=('shuf', 'shuf', 'inc', 'dec'), attrs=rng.random() < 0.4)
        i = rng.randrange(nd); r = a['dims'][i] if rng.random() < 0.5 else i
        labs = a['labels'][i]; ln = len(labs)
        if fam == 'sort_axis':
            labs_ = a['labels'][a['dims'].index(r) if isinstance(r, str) else r]
            kk = rng.choice(['none', 'none', 'neg', 'dict', 'fun'])
            if kk == 'neg' and any(isinstance(x, str) for x in labs_): kk = 'dict'
            stats['sort_key'][kk] += 1
            if kk == 'none': key = None
            elif kk == 'neg': key = ['neg', list(labs_)]
            else:
                ranks = [rng.randint(0, 3) for _ in labs_]          # ties: the sort is stable
                key = [kk, [[l, k] for l, k in zip(labs_, ranks)]]
            cases.append({'ins': [a], 'ops': [['sort_axis', r] + ([key] if key else [])]})
        elif fam == 'take_axis':
            if rng.random() < 0.5:
                idx = [rng.choice(labs) for _ in range(rng.randint(0, 4))]
                if rng.random() < 0.1: idx.append({'i': 99, 'f': 0.125, 'O': 'zz'}[a['axdtype'][i]])
                cases.append({'ins': [a], 'ops': [['take_axis', idx, r, 'label']]})
            else:
                idx = [rng.randrange(-ln, ln) for _ in range(rng.randint(0, 4))]
                cases.append({'ins': [a], 'ops': [['take_axis', idx, r, 'position']]})
        elif fam == 'compress_axis':
            cases.append({'ins': [a], 'ops': [['compress_axis', [rng.random() < 0.5 for _ in range(ln)], r]]})
        elif fam == 'dropna':
            with_nans(rng, a, stats); with_infs(rng, a, stats)
            slice_size = 1
            for j, l in enumerate(a['labels']):
                if j != i: slice_size *= len(l)
            mv = None if nd == 1 or rng.random() < 0.3 else rng.randint(0, slice_size)
            stats['minvalid']['default' if mv is None else 'zero' if mv == 0 else 'full' if mv == slice_size else 'mid'] += 1
            cases.append({'ins': [a], 'ops': [['dropna', r, mv]]})
        elif fam == 'fillna':
            with_nans(rng, a, stats); with_infs(rng, a, stats)
            cases.append({'ins': [a], 'ops': [['fillna', rng.choice([0, -1.5, 7])]]})
        elif fam == 'setna':
            if rng.random() < 0.3:
                # cells that are close to the flag value without being equal to it ("exactly the cells equal to the given value")
                if a['dtype'] == 'i':
                    base = rng.choice([250000, 10 ** 6, 2 ** 24]); a['flat'] = [base + (_iv(v) % 4) for v in a['flat']]
                else:
                    base = rng.choice([999.0, -5000.0, 1e-9]); a['flat'] = [base * (1 + (_iv(v) % 4) / 2.0 ** 20) for v in a['flat']]
                stats['setna_near_equal_cells'][a['dtype']] += 1
            pool = sorted(set(v for v in a['flat']))
            vs = rng.sample(pool, min(len(pool), rng.randint(1, 2))) if pool else [0]
            as_list = len(vs) > 1 or rng.random() < 0.5
            if rng.random() < 0.08: vs = []; as_list = True; stats['setna_empty_list']['yes'] += 1     # no value given: no cell changes
            r = rng.random()
            if vs and r < 0.2:
                # a value listed twice still selects its cells
                vs = vs + [rng.choice(vs)]; rng.shuffle(vs); as_list = True; stats['setna_repeated_value']['yes'] += 1
            elif vs and r < 0.4:
                # flag values together with a mask that overlaps them
                mask = [(v in vs and rng.random() < 0.7) or rng.random() < 0.25 for v in a['flat']]
                stats['setna_value_and_mask']['yes'] += 1
                cases.append({'ins': [a], 'ops': [['setna_mixed', vs, mask]]})
                continue
            cases.append({'ins': [a], 'ops': [['setna', vs, as_list]]})
        else:
            cases.append({'ins': [a], 'ops': [['setna_mask', [rng.random() < 0.4 for _ in a['flat']]]]})
    return cases

def oracle(case, res):
    a = case['ins'][0]; o = case['ops'][0]
    arr = mk_array(a); obs = arr_json(arr)
    nd = len(a['dims'])
    def pos_of(r): return a['dims'].index(r) if isinstance(r, str) else r
    def expect_take(p, positions, rr):
        """result = slices of a at the given positions along p, each with its label; other axes untouched"""
        if obs_dims(rr) != a['dims']: return 'dims changed'
        if not labs_eq(rr['axes'][p]['labels'], [a['labels'][p][j] for j in positions]): return 'axis %s is %r, expected %r' % (a['dims'][p], rr['axes'][p]['labels'], [a['labels'][p][j] for j in positions])
        for j, ax in enumerate(rr['axes']):
            if j != p and not labs_eq(ax['labels'], a['labels'][j]): return 'another axis changed'
        want = arr.values.take(positions, axis=p) if positions else arr.values.take([], axis=p)
        w = [cell_json(x) for x in want.ravel().tolist()]
        if len(w) != len(rr['flat']) or not all(cell_eq(x, y) or (not isinstance(x, dict) and not isinstance(y, dict) and float(x) == float(y)) for x, y in zip(w, rr['flat'])):
            return 'slices do not move with their labels'
        if rr['attrs'] != obs['attrs']: return 'metadata lost'
        return None
    if o[0] == 'sort_axis':
        p = pos_of(o[1]); labs = a['labels'][p]
        if res[0] == 'err': return 'sort_axis raised %s' % res[1]
        key = o[2] if len(o) > 2 else None
        if key is None: order = sorted(range(len(labs)), key=lambda j: labs[j])
        elif key[0] == 'neg': order = sorted(range(len(labs)), key=lambda j: -labs[j])
        else: order = sorted(range(len(labs)), key=lambda j: key[1][j][1])       # stable: ties keep their order
        return expect_take(p, order, res[1]['v'])
    if o[0] == 'take_axis':
        _, idx, r, mode = o; p = pos_of(r); labs = a['labels'][p]
        if mode == 'label':
            if any(x not in labs for x in idx):
                return None if res == ('err', 'IndexError') else 'absent label: expected IndexError, got %r' % (res[:2],)
            positions = [labs.index(x) for x in idx]
        else:
            positions = [j % len(labs) for j in idx]
        if res[0] == 'err': return 'take_axis raised %s' % res[1]
        return expect_take(p, positions, res[1]['v'])
    if o[0] == 'compress_axis':
        _, mask, r = o; p = pos_of(r)
        if res[0] == 'err': return 'compress_axis raised %s' % res[1]
        return expect_take(p, [j for j, b in enumerate(mask) if b], res[1]['v'])
    if o[0] == 'dropna':
        _, r, mv = o; p = pos_of(r); v = arr.values
        if res[0] == 'err': return 'dropna raised %s' % res[1]
        keep = []
        for j in range(v.shape[p]):
            sl = np.take(v, j, axis=p)
            valid = int(np.sum(~np.isnan(sl))); size = int(np.size(sl))
            need = size if mv is None else mv
            if valid >= need: keep.append(j)
        return expect_take(p, keep, res[1]['v'])
    if res[0] == 'err': return '%s raised %s' % (o[0], res[1])
    rr = res[1]['v']
    if obs_dims(rr) != a['dims'] or any(not labs_eq(x['labels'], y) for x, y in zip(rr['axes'], a['labels'])): return 'axes changed'
    if rr['attrs'] != obs['attrs']: return 'metadata lost'
    flat = obs['flat']
    if o[0] == 'fillna':
        for x, y in zip(flat, rr['flat']):
            if x == {'nan': 1}:
                if isinstance(y, dict) or float(y) != float(o[1]): return 'NaN cell holds %r, expected the fill value' % (y,)
            elif y != x and not (not isinstance(y, dict) and float(y) == float(x)): return 'non-NaN cell changed'
        return None
    if o[0] in ('setna', 'setna_mixed'):
        vs = [float(x) for x in o[1]]
        bits = o[2] if o[0] == 'setna_mixed' else [False] * len(flat)
        for x, y, b in zip(flat, rr['flat'], bits):
            hit = b or ((not isinstance(x, dict)) and float(x) in vs)
            if hit and y != {'nan': 1}: return 'cell equal to a listed value is %r, not NaN' % (y,)
            if not hit and y != x and not (not isinstance(y, dict) and not isinstance(x, dict) and float(y) == float(x)): return 'unlisted cell changed from %r to %r' % (x, y)
        return None
    for x, y, b in zip(flat, rr['flat'], o[1]):
        if b and y != {'nan': 1}: return 'masked cell is %r, not NaN' % (y,)
        if not b and y != x and not (not isinstance(y, dict) and not isinstance(x, dict) and float(y) == float(x)): return 'unmasked cell changed'
    return None

def nontrivial(case, res):
    return res[0] == 'val' and len(case['ins'][0]['flat']) > 1
