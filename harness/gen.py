"""Seeded generators of structured inputs (JSON arrays, labels, axis references)."""
import random
from collections import Counter

DIMPOOL = ['x', 'y', 'z', 'w', 't', 'u']
STRS = ['a', 'b', 'c', 'd', 'e', 'f', 'g', 'h']

def rand_labels(rng, n, kind, order):
    if kind == 'i':
        labs = rng.sample(range(-3, 14), n)
    elif kind == 'f':
        labs = [x / 4.0 for x in rng.sample(range(-8, 40), n)]
    else:
        labs = rng.sample(STRS, n)
    if order == 'inc': labs.sort()
    elif order == 'dec': labs.sort(reverse=True)
    else: rng.shuffle(labs)
    return labs

def rand_array(rng, ndim=None, minlen=0, maxlen=4, dtype='f', nan_p=0.0, kinds=('i', 'f', 'O'),
               orders=('inc', 'dec', 'shuf'), attrs=False, distinct_lens=False, dims=None, lens=None,
               maxdim=4, stats=None):
    if ndim is None:
        ndim = rng.choice(range(0, maxdim + 1)) if dims is None else len(dims)
    if dims is None:
        dims = rng.sample(DIMPOOL, ndim)
    if lens is None:
        if distinct_lens:
            lens = rng.sample(range(max(minlen, 1), max(minlen, 1) + ndim + 2), ndim)
        else:
            lens = [rng.randint(minlen, maxlen) for _ in range(ndim)]
    labels, axd = [], []
    for n in lens:
        k = rng.choice(kinds); o = rng.choice(orders)
        labels.append(rand_labels(rng, n, k, o)); axd.append(k)
        if stats is not None:
            stats['axis_kind'][k] += 1; stats['axis_order'][o] += 1; stats['axis_len'][n] += 1
    size = 1
    for n in lens: size *= n
    base = list(range(1, size + 1))
    rng.shuffle(base)
    if dtype == 'f':
        flat = [float(b) / 2 + 10 for b in base]
        if nan_p:
            flat = [float('nan') if rng.random() < nan_p else v for v in flat]
    elif dtype == 'i':
        flat = [b + 10 for b in base]
    elif dtype == 'b':
        flat = [rng.random() < 0.5 for _ in base]
    else:
        flat = [float(b) for b in base]
    j = {'dims': dims, 'labels': labels, 'axdtype': axd, 'dtype': dtype, 'flat': flat}
    if attrs:
        j['attrs'] = rand_meta(rng)
        j['axattrs'] = [rand_meta(rng) if rng.random() < 0.5 else {} for _ in lens]
    if stats is not None:
        stats['ndim'][ndim] += 1
    return j

def rand_meta(rng):
    pool = {'units': 'K', 'long_name': 'temperature', 'scale': 2.5, 'count': 3, 'levels': [1.0, 2.5], 'flag': True}
    ks = rng.sample(sorted(pool), rng.randint(0, 3))
    return {k: pool[k] for k in ks}

def new_stats():
    from collections import defaultdict
    return defaultdict(Counter)

def ref(rng, dims, i, p_pos=0.5):
    """refer to dimension i by name or position"""
    return i if rng.random() < p_pos else dims[i]

def stats_json(stats):
    return {k: {str(a): b for a, b in sorted(v.items(), key=lambda kv: str(kv[0]))} for k, v in stats.items()}
