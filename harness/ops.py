"""Operation language shared by all checks: for every op name, how to run it on the
implementation and how to write it as a term of DA.Model.Ops.op.
An op is a JSON list [name, arg...]. `ins` is the list of input DimArrays of the case."""
import numpy as np
from common import *

RUN = {}
COQ = {}

def op(name):
    def deco(cls):
        RUN[name] = cls.run
        COQ[name] = cls.coq
        return cls
    return deco

def labs_np(labels, kind):
    if kind in ('O', 'U') or any(isinstance(l, (list, tuple)) or l is None for l in labels):
        a = np.empty(len(labels), dtype=object)
        for i, x in enumerate(labels): a[i] = tuple(x) if isinstance(x, list) else x
        return a
    return np.array(labels, dtype={'i': np.int64, 'f': float, 'b': bool}[kind])

def cq_labs(labels):
    return cq_list([cq_label(l) for l in labels])

def cq_axis_in(j):
    """{'name','labels','kind','attrs'} -> Coq axis, via the implementation's own Axis"""
    ax = mk_axis(j['name'], j['labels'], j['kind'], j.get('attrs'))
    return cq_axis_obs(axis_json(ax))

@op('transpose')
class _:
    def run(a, ins, refs): return a.transpose(*refs) if refs else a.transpose()
    def coq(refs): return '(OTranspose %s)' % cq_list([cq_axref(r) for r in refs])

@op('transpose_list')
class _:
    def run(a, ins, refs): return a.transpose(list(refs))
    def coq(refs): return '(OTranspose %s)' % cq_list([cq_axref(r) for r in refs])

@op('T')
class _:
    def run(a, ins): return a.T
    def coq(): return '(OTranspose [])'

@op('swapaxes')
class _:
    def run(a, ins, r1, r2): return a.swapaxes(r1, r2)
    def coq(r1, r2): return '(OSwapaxes %s %s)' % (cq_axref(r1), cq_axref(r2))

@op('rollaxis')
class _:
    def run(a, ins, r, start): return a.rollaxis(r, start)
    def coq(r, start): return '(ORollaxis %s %s)' % (cq_axref(r), cq_z(start))

@op('repeat')
class _:
    def run(a, ins, labels, kind, r): return a.repeat(labs_np(labels, kind), axis=r)
    def coq(labels, kind, r): return '(ORepeat %s %s %s)' % (cq_kind(kind), cq_labs(labels), cq_axref(r))

@op('repeat_n')
class _:
    def run(a, ins, n, r): return a.repeat(n, axis=r)
    def coq(n, r): return '(ORepeat KI %s %s)' % (cq_labs(list(range(n))), cq_axref(r))

@op('newaxis')
class _:
    def run(a, ins, name, labels, kind, pos):
        return a.newaxis(name, values=None if labels is None else labs_np(labels, kind), pos=pos)
    def coq(name, labels, kind, pos):
        v = 'None' if labels is None else '(Some (%s, %s))' % (cq_kind(kind), cq_labs(labels))
        return '(ONewaxis %s %s %s)' % (cq_str(name), v, cq_z(pos))

@op('squeeze')
class _:
    def run(a, ins, r): return a.squeeze() if r is None else a.squeeze(r)
    def coq(r): return '(OSqueeze %s)' % cq_opt(r, cq_axref)

@op('broadcast')
class _:
    def run(a, ins, axes): return a.broadcast([mk_axis(x['name'], x['labels'], x['kind'], x.get('attrs')) for x in axes])
    def coq(axes): return '(OBroadcast %s)' % cq_list([cq_axis_in(x) for x in axes])

@op('broadcast_to')
class _:
    def run(a, ins, i): return a.broadcast(ins[i])
    def coq(i): return '(OBroadcastTo %d)' % i

def run_ops(ins, ops):
    a = ins[0]
    for o in ops:
        a = RUN[o[0]](a, ins, *o[1:])
    return a

def coq_case(case, res, strict_err=True):
    ins = cq_list([cq_arr_in(j) for j in case['ins']])
    ops = cq_list([COQ[o[0]](*o[1:]) for o in case['ops']])
    return '(%s, %s, %s)' % (ins, ops, cq_expect(res, strict_err))

HEADER = ('From DA Require Import Prelude NDArray Array.\n'
          'From DA.Model Require Import Value Ops.\n'
          'Open Scope string_scope.\n')
