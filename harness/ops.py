"""Operation language shared by all checks: for every op name, how to run it on the
implementation and how to write it as a term of DA.Model.Ops.op.
An op is a JSON list [name, arg...]. `ins` is the list of input DimArrays of the case."""
import numpy as np
from common import *

RUN = {}
COQ = {}

def op(name):
    def deco(cls):
        RUN[name] = cls.run
        COQ[name] = cls.coq
        return cls
    return deco

def labs_np(labels, kind):
    if kind in ('O', 'U') or any(isinstance(l, (list, tuple)) or l is None for l in labels):
        a = np.empty(len(labels), dtype=object)
        for i, x in enumerate(labels): a[i] = tuple(x) if isinstance(x, list) else x
        return a
    return np.array(labels, dtype={'i': np.int64, 'f': float, 'b': bool}[kind])

def cq_labs(labels):
    return cq_list([cq_label(l) for l in labels])

def cq_axis_in(j):
    """{'name','labels','kind','attrs'} -> Coq axis, via the implementation's own Axis"""
    ax = mk_axis(j['name'], j['labels'], j['kind'], j.get('attrs'))
    return cq_axis_obs(axis_json(ax))

@op('transpose')
class _:
    def run(a, ins, refs): return a.transpose(*refs) if refs else a.transpose()
    def coq(refs): return '(OTranspose %s)' % cq_list([cq_axref(r) for r in refs])

@op('transpose_list')
class _:
    def run(a, ins, refs): return a.transpose(list(refs))
    def coq(refs): return '(OTranspose %s)' % cq_list([cq_axref(r) for r in refs])

@op('T')
class _:
    def run(a, ins): return a.T
    def coq(): return '(OTranspose [])'

@op('swapaxes')
class _:
    def run(a, ins, r1, r2): return a.swapaxes(r1, r2)
    def coq(r1, r2): return '(OSwapaxes %s %s)' % (cq_axref(r1), cq_axref(r2))

@op('rollaxis')
class _:
    def run(a, ins, r, start): return a.rollaxis(r, start)
    def coq(r, start): return '(ORollaxis %s %s)' % (cq_axref(r), cq_z(start))

@op('repeat')
class _:
    def run(a, ins, labels, kind, r): return a.repeat(labs_np(labels, kind), axis=r)
    def coq(labels, kind, r): return '(ORepeat %s %s %s)' % (cq_kind(kind), cq_labs(labels), cq_axref(r))

@op('repeat_n')
class _:
    def run(a, ins, n, r): return a.repeat(n, axis=r)
    def coq(n, r): return '(ORepeat KI %s %s)' % (cq_labs(list(range(n))), cq_axref(r))

@op('newaxis')
class _:
    def run(a, ins, name, labels, kind, pos):
        return a.newaxis(name, values=None if labels is None else labs_np(labels, kind), pos=pos)
    def coq(name, labels, kind, pos):
        v = 'None' if labels is None else '(Some (%s, %s))' % (cq_kind(kind), cq_labs(labels))
        return '(ONewaxis %s %s %s)' % (cq_str(name), v, cq_z(pos))

@op('squeeze')
class _:
    def run(a, ins, r): return a.squeeze() if r is None else a.squeeze(r)
    def coq(r): return '(OSqueeze %s)' % cq_opt(r, cq_axref)

@op('broadcast')
class _:
    def run(a, ins, axes): return a.broadcast([mk_axis(x['name'], x['labels'], x['kind'], x.get('attrs')) for x in axes])
    def coq(axes): return '(OBroadcast %s)' % cq_list([cq_axis_in(x) for x in axes])

@op('broadcast_to')
class _:
    def run(a, ins, i): return a.broadcast(ins[i])
    def coq(i): return '(OBroadcastTo %d)' % i

def run_ops(ins, ops):
    a = ins[0]
    for o in ops:
        a = RUN[o[0]](a, ins, *o[1:])
    return a

def coq_case(case, res, strict_err=True):
    ins = cq_list([cq_arr_in(j) for j in case['ins']])
    ops = cq_list([COQ[o[0]](*o[1:]) for o in case['ops']])
    return '(%s, %s, %s)' % (ins, ops, cq_expect(res, strict_err))

HEADER = ('From DA Require Import Prelude NDArray Array PyRT.\n'
          'From DA.Model Require Import Value Reshape Indexing Align Transform Flatten Ops.\n'
          'Open Scope string_scope.\n')

# ---------------------------------------------------------------- indexing (C01, C02, C03)
# index JSON: "full" | {"s": label} | {"l": [labels], "as": "list"|"array"} | {"m": [bools]}
#             | {"sl": [lo, hi, step]} | {"ps": int} | {"pl": [ints]} | {"psl": [a, b, c]}
def py_label(l):
    return tuple(py_label(x) for x in l) if isinstance(l, list) else l

def py_idx(ix):
    if ix == 'full': return slice(None)
    if 's' in ix: return py_label(ix['s'])
    if 'l' in ix:
        return np.array(ix['l']) if ix.get('as') == 'array' and len(ix['l']) > 0 else [py_label(x) for x in ix['l']]
    if 'm' in ix: return np.array(ix['m'], dtype=bool)
    if 'sl' in ix: return slice(*ix['sl'])
    if 'ps' in ix: return ix['ps']
    if 'pl' in ix: return list(ix['pl'])
    if 'psl' in ix: return slice(*ix['psl'])
    raise ValueError(ix)

def cq_idx(ix):
    oz = lambda z: 'None' if z is None else '(Some %s)' % cq_z(z)
    ol = lambda l: 'None' if l is None else '(Some %s)' % cq_label(l)
    if ix == 'full': return 'IFull'
    if 's' in ix: return '(IScalar %s)' % cq_label(ix['s'])
    if 'l' in ix: return '(IList %s)' % cq_labs(ix['l'])
    if 'm' in ix: return '(IMask %s)' % cq_list(['true' if b else 'false' for b in ix['m']])
    if 'sl' in ix: return '(ISlice %s %s %s)' % (ol(ix['sl'][0]), ol(ix['sl'][1]), oz(ix['sl'][2]))
    if 'ps' in ix: return '(PScalar %s)' % cq_z(ix['ps'])
    if 'pl' in ix: return '(PList %s)' % cq_list([cq_z(z) for z in ix['pl']])
    if 'psl' in ix: return '(PSlice %s %s %s)' % tuple(oz(z) for z in ix['psl'])
    raise Unsupported('index %r' % (ix,))

def cq_form(form):
    if 'tuple' in form: return '(FTuple %s)' % cq_list([cq_idx(i) for i in form['tuple']])
    if 'dict' in form: return '(FDict %s)' % cq_list(['(%s, %s)' % (cq_axref(r), cq_idx(i)) for r, i in form['dict']])
    if 'axis' in form: return '(FAxisKw %s %s)' % (cq_axref(form['axis'][0]), cq_idx(form['axis'][1]))
    raise Unsupported('form')

def cq_tol(tol):
    if tol is None: return 'TolNone'
    if tol == 'inf': return 'TolInf'
    return '(TolQ %s)' % cq_q(tol)

def py_tol(tol):
    return None if tol is None else (np.inf if tol == 'inf' else tol)

def py_form(form):
    if 'tuple' in form:
        t = tuple(py_idx(i) for i in form['tuple'])
        return t, {}
    if 'dict' in form:
        return {r: py_idx(i) for r, i in form['dict']}, {}
    return py_idx(form['axis'][1]), {'axis': form['axis'][0]}

def with_by(by, f):
    D = da()
    old = D.get_option('indexing.by')
    D.set_option('indexing.by', by)
    try: return f()
    finally: D.set_option('indexing.by', old)

def rebuild_by(a, by):
    """the same array constructed while indexing.by = by (so that a._indexing is by)"""
    D = da()
    if by == 'label': return a
    return with_by(by, lambda: D.DimArray(a.values, axes=a.axes, **a.attrs))

# spelling -> effective mode given 'by'
def effective_mode(spelling, by):
    if spelling in ('loc', 'sel', 'nloc'): return 'label'
    if spelling in ('iloc', 'isel', 'take_pos'): return 'position'
    if spelling == 'take_lab': return 'label'
    if spelling == 'ix': return 'position' if by == 'label' else 'label'
    return by   # getitem, take

@op('get')
class _:
    def run(a, ins, spelling, form, tol, keepdims, by):
        a = rebuild_by(a, by)
        idx, kw = py_form(form)
        t = py_tol(tol)
        if spelling == 'getitem':
            if kw or t is not None or keepdims: raise Unsupported('getitem with kwargs')
            return a[idx if not (isinstance(idx, tuple) and len(idx) == 1) else idx[0]] if not isinstance(idx, tuple) or len(idx) != 0 else a[()]
        if spelling in ('take', 'take_pos', 'take_lab'):
            if spelling == 'take_pos': kw['indexing'] = 'position'
            if spelling == 'take_lab': kw['indexing'] = 'label'
            return a.take(idx, tol=t, keepdims=keepdims, **kw)
        if spelling in ('loc', 'iloc', 'ix', 'nloc'):
            if kw or keepdims: raise Unsupported('accessor with kwargs')
            return getattr(a, spelling)[idx]
        if spelling in ('sel', 'isel'):
            if not isinstance(idx, dict) or not all(isinstance(k, str) for k in idx): raise Unsupported('sel needs names')
            return getattr(a, spelling)(**idx)
        raise Unsupported(spelling)
    def coq(spelling, form, tol, keepdims, by):
        if spelling == 'nloc': tol = 'inf'
        return '(OGet %s %s %s)' % (cq_form(form), cq_tol(tol), 'true' if keepdims else 'false')

def cq_rhs(r):
    if 'scalar' in r:
        v = r['scalar']
        k = 'b' if isinstance(v, bool) else 'i' if isinstance(v, int) else 'f' if isinstance(v, float) else 'U' if isinstance(v, str) else 'O'
        return '(RScalar %s %s)' % (cq_cell(v), cq_kind(k))
    a = np.array(r['flat'], dtype=_DT_RHS[r['dtype']]).reshape(r['shape'])
    return '(RArr {| sh := %s; dat := %s; kd := %s |})' % (cq_list(['%d' % n for n in r['shape']]),
                                                        cq_list([cq_cell(cell_json(x)) for x in (a.ravel() if a.dtype.kind == 'O' else a.ravel().tolist())]), cq_kind(r['dtype']))
_DT_RHS = {'f': float, 'i': np.int64, 'b': bool, 'O': object}

def py_rhs(r):
    if r.get('np') == 'float32':    # values exactly representable in single precision, passed as float32
        return np.float32(r['scalar']) if 'scalar' in r else np.array(r['flat'], dtype=np.float32).reshape(r['shape'])
    if 'scalar' in r: return r['scalar']
    return np.array(r['flat'], dtype=_DT_RHS[r['dtype']]).reshape(r['shape'])

@op('reshape_plaincomma')
class _:
    # a PLAIN axis whose name holds a comma (what point-wise selection along two dimensions returns), then a reshape that moves
    # or adds a dimension: reshape takes a special path for such names
    def run(a, ins, d, how):
        b = a.copy(); b.axes[d].name = b.axes[d].name + ',k'
        if how == 'reverse': return b.reshape(*b.dims[::-1])
        return b.reshape(*(b.dims + ('newd',)))
    def coq(d, how): raise Unsupported('reshape of a plain comma-named axis is checked by the oracle only')

@op('get_ndmask')
class _:
    # a boolean mask of the full shape of an n-d array: the selected cells along ONE axis whose labels are coordinate tuples
    def run(a, ins, mask, how):
        m = np.array(mask, dtype=bool).reshape(a.shape)
        if how == 'getitem_da': return a[da().DimArray(m, axes=[ax.copy() for ax in a.axes])]
        if how == 'take': return a.take(m)
        if how == 'compress': return a.compress(m)
        return a[m]
    def coq(mask, how): raise Unsupported('n-d boolean indexing is checked by the oracle only')

@op('put')
class _:
    def run(a, ins, spelling, form, tol, rhs, cast, inplace, by):
        a = rebuild_by(a, by)
        idx, kw = py_form(form)
        t = py_tol(tol); v = py_rhs(rhs)
        if spelling == 'setitem':
            if kw or t is not None or cast: raise Unsupported('setitem kwargs')
            b = a.copy(); b[idx if not (isinstance(idx, tuple) and len(idx) == 1) else idx[0]] = v; return b
        if spelling in ('put', 'put_pos', 'put_bc'):
            if spelling == 'put_pos': kw['indexing'] = 'position'
            if spelling == 'put_bc': kw['broadcast'] = True      # at most one indexed dimension: the same cells as orthogonally
            if inplace:
                b = a.copy(); r = b.put(idx, v, tol=t, cast=cast, inplace=True, **kw)
                if r is not None: raise AssertionError('put(inplace=True) returned a value')
                return b
            return a.put(idx, v, tol=t, cast=cast, inplace=False, **kw)
        if spelling in ('loc', 'iloc', 'ix'):
            b = a.copy(); getattr(b, spelling)[idx] = v; return b
        raise Unsupported(spelling)
    def coq(spelling, form, tol, rhs, cast, inplace, by):
        return '(OPut %s %s %s %s)' % (cq_form(form), cq_tol(tol), cq_rhs(rhs), 'true' if cast else 'false')

@op('putmask')
class _:
    def run(a, ins, mask, rhs, cast, spelling):
        m = np.array(mask, dtype=bool).reshape(a.shape)
        v = py_rhs(rhs)
        if spelling == 'setitem':
            if cast: raise Unsupported('setitem cast')
            b = a.copy(); b[m] = v; return b
        return a.put(m, v, cast=cast, inplace=False)
    def coq(mask, rhs, cast, spelling):
        return '(OPutMask %s %s %s)' % (cq_list(['true' if b else 'false' for b in mask]), cq_rhs(rhs), 'true' if cast else 'false')

def snapshot(a):
    return json.dumps(in_json(a), sort_keys=True, default=str)

# ---------------------------------------------------------------- alignment family (C04 C06 C07 C12)
def kind_of_labels(labels, kind=None):
    return kind or guess_kind(labels)

def cq_fill(v):
    k = 'b' if isinstance(v, bool) else 'i' if isinstance(v, int) else 'f' if isinstance(v, float) else 'U'
    return cq_cell(v), cq_kind(k)

@op('reindex')
class _:
    def run(a, ins, labels, kind, r, fill, raise_error, method, as_):
        vals = labs_np(labels, kind)
        if as_ == 'list': vals = [py_label(x) for x in labels]
        kw = {}
        if fill is not None: kw['fill_value'] = fill if not isinstance(fill, dict) else float('nan')
        return a.reindex_axis(vals, axis=r, raise_error=raise_error, method=method, **kw)
    def coq(labels, kind, r, fill, raise_error, method, as_):
        vk = kind_of(np.asarray([py_label(x) for x in labels])) if as_ == 'list' and labels else kind
        if vk in ('U', 'S'): vk = 'U'
        c, fk = cq_fill(float('nan') if fill is None or isinstance(fill, dict) else fill)
        m = {None: 'MNone', 'left': 'MLeft', 'right': 'MRight'}[method]
        return '(OReindex %s %s %s %s %s %s %s)' % (cq_kind(vk), cq_labs(labels), cq_axref(r), c, fk,
                                                    'true' if raise_error else 'false', m)

@op('reindex_axisobj')
class _:
    def run(a, ins, ax): return a.reindex_axis(mk_axis(ax['name'], ax['labels'], ax['kind']))
    def coq(ax): return '(OReindexAxisObj %s)' % cq_axis_in(ax)

@op('reindex_like')
class _:
    def run(a, ins, i): return a.reindex_like(ins[i])
    def coq(i): return '(OReindexLike %d)' % i

@op('align')
class _:
    def run(a, ins, join, axis, sort):
        return da().align(list(ins), join=join, axis=axis, sort=sort)
    def coq(join, axis, sort):
        return '(OAlign %s %s %s)' % ('Outer' if join == 'outer' else 'Inner', cq_opt(axis, cq_str), 'true' if sort else 'false')

_BINOP = {'+': 'BAdd', '-': 'BSub', '*': 'BMul', '/': 'BDiv', '//': 'BFloorDiv', '**': 'BPow'}
def py_binop(o, x, y):
    import operator
    return {'+': operator.add, '-': operator.sub, '*': operator.mul, '/': operator.truediv,
            '//': operator.floordiv, '**': operator.pow}[o](x, y)

@op('binop')
class _:
    def run(a, ins, o, i, reflected): return py_binop(o, ins[i], a) if reflected else py_binop(o, a, ins[i])
    def coq(o, i, reflected): return '(%s %s %d)' % ('OBinopR' if reflected else 'OBinop', _BINOP[o], i)

@op('scalar_op')
class _:
    def run(a, ins, o, v, reflected, np_scalar=False):
        # np_scalar: the scalar is a NumPy scalar (np.float64 / np.int64: what a.mean(), a.values[0] ... return), not a Python number
        if np_scalar: v = np.float64(v) if isinstance(v, float) else np.int64(v)
        return py_binop(o, v, a) if reflected else py_binop(o, a, v)
    def coq(o, v, reflected, np_scalar=False):
        c, k = cq_fill(v)
        return '(OScalarOp %s %s %s %s)' % (_BINOP[o], c, k, 'true' if reflected else 'false')

@op('ndarray_op')
class _:
    def run(a, ins, o, rhs): return py_binop(o, a, py_rhs(rhs))
    def coq(o, rhs): return '(ONdarrayOp %s %s)' % (_BINOP[o], cq_rhs(rhs)[6:-1])

@op('stack')
class _:
    def run(a, ins, name, keys, kkind, align, sort, as_dict):
        kw = {}
        if align: kw = {'align': True, 'sort': sort}
        D = da()
        if isinstance(as_dict, list):
            # a dict inserted in the order `as_dict` (a permutation of the inputs) + keys= giving the order of the result
            d = {py_label(keys[i]): ins[i] for i in as_dict}
            return D.stack(d, axis=name, keys=[py_label(k) for k in keys], **kw)
        if as_dict:
            return D.stack({py_label(k): x for k, x in zip(keys, ins)}, axis=name, **kw)
        return D.stack(list(ins), axis=name, keys=None if keys is None else [py_label(k) for k in keys], **kw)
    def coq(name, keys, kkind, align, sort, as_dict):
        if keys is None: raise Unsupported('default keys need the number of inputs')
        return '(OStack %s %s %s %s %s)' % (cq_opt(name, cq_str), cq_kind(kkind), cq_labs(keys),
                                            'true' if align else 'false', 'true' if sort else 'false')

@op('concatenate')
class _:
    def run(a, ins, r, align, sort):
        kw = {'align': True, 'sort': sort} if align else {}
        return da().concatenate(list(ins), axis=r, **kw)
    def coq(r, align, sort):
        return '(OConcat %s %s %s)' % (cq_axref(r), 'true' if align else 'false', 'true' if sort else 'false')

@op('sort_axis')
class _:
    def run(a, ins, r, key=None):
        if key is None: return a.sort_axis(axis=r)
        if key[0] == 'neg': return a.sort_axis(axis=r, key=lambda x: -x)
        if key[0] == 'dict': return a.sort_axis(axis=r, key=dict((py_label(l), k) for l, k in key[1]))
        if key[0] == 'fun': return a.sort_axis(axis=r, key=lambda x: dict((py_label(l), k) for l, k in key[1])[x])
        raise Unsupported('key')
    def coq(r, key=None):
        if key is None: return '(OSortAxis %s)' % cq_axref(r)
        if key[0] == 'neg': ks = [-l for l in key[1]]
        else: ks = [k for _, k in key[1]]
        return '(OSortAxisKey %s %s)' % (cq_axref(r), cq_labs(ks))

@op('broadcast_arrays')
class _:
    def run(a, ins): return da().broadcast_arrays(*ins)
    def coq(): return 'OBroadcastArrays'


# ---------------------------------------------------------------- along-axis family (C08 C09 C11 C17 C18)
_RED = {'sum': 'RSum', 'prod': 'RProd', 'mean': 'RMean', 'var': 'RVar', 'std': 'RStd', 'min': 'RMin', 'max': 'RMax',
        'ptp': 'RPtp', 'all': 'RAll', 'any': 'RAny', 'median': 'RMedian'}
def cq_axarg(ax):
    if ax is None: return 'AxNone'
    if isinstance(ax, list): return '(AxMany %s)' % cq_list([cq_axref(r) for r in ax])
    return '(AxOne %s)' % cq_axref(ax)

def _square(r):
    """std is compared through its square (the model computes the variance exactly)"""
    from fractions import Fraction
    D = da()
    sq = lambda x: float('nan') if x != x else Fraction(*float(x).as_integer_ratio()) ** 2
    return r, sq

@op('reduce')
class _:
    def run(a, ins, name, skipna, ax):
        axis = tuple(ax) if isinstance(ax, list) else ax
        return getattr(a, name)(axis=axis, skipna=skipna)
    def coq(name, skipna, ax):
        return '(OReduce %s %s %s)' % (_RED[name], 'true' if skipna else 'false', cq_axarg(ax))

@op('cum')
class _:
    def run(a, ins, prod, skipna, r, default_axis):
        f = a.cumprod if prod else a.cumsum
        return f(skipna=skipna) if default_axis else f(axis=r, skipna=skipna)
    def coq(prod, skipna, r, default_axis):
        return '(OCum %s %s %s)' % ('true' if prod else 'false', 'true' if skipna else 'false', cq_axref(r))

@op('diff')
class _:
    def run(a, ins, r, scheme, keepaxis, n): return a.diff(axis=r, scheme=scheme, keepaxis=keepaxis, n=n)
    def coq(r, scheme, keepaxis, n):
        return '(ODiff %s %s %s %d)' % (cq_axref(r), scheme.capitalize(), 'true' if keepaxis else 'false', n)

@op('argext')
class _:
    def run(a, ins, mx, r):
        f = a.argmax if mx else a.argmin
        res = f() if r is None else f(axis=r)
        if r is not None and not hasattr(res, 'axes'): return (res,)
        return res
    def coq(mx, r): return '(OArgExt %s %s)' % ('true' if mx else 'false', cq_opt(r, cq_axref))

@op('argext_tuple')
class _:
    def run(a, ins, mx, refs): return (a.argmax if mx else a.argmin)(axis=tuple(refs))
    def coq(mx, refs): raise Unsupported('arg-extremum over a tuple of dimensions is checked by the oracle only')

@op('dropna')
class _:
    def run(a, ins, r, minvalid): return a.dropna(axis=r, minvalid=minvalid)
    def coq(r, minvalid): return '(ODropna %s %s)' % (cq_axref(r), 'None' if minvalid is None else '(Some %d)' % minvalid)

@op('fillna')
class _:
    def run(a, ins, v): return a.fillna(v)
    def coq(v):
        c, k = cq_fill(v); return '(OFillna %s %s)' % (c, k)

@op('setna')
class _:
    def run(a, ins, vs, as_list): return a.setna(vs if as_list else vs[0])
    def coq(vs, as_list): return '(OSetna %s)' % cq_list([cq_cell(v) for v in vs])

@op('setna_mixed')
class _:
    # a list of flag values together with a mask: a cell becomes NaN when ANY entry selects it (the same as the two calls in sequence)
    def run(a, ins, vs, mask): return a.setna(list(vs) + [np.array(mask, dtype=bool).reshape(a.shape)])
    def coq(vs, mask): return '(OSetna %s); (OSetnaMask %s)' % (cq_list([cq_cell(v) for v in vs]), cq_list(['true' if b else 'false' for b in mask]))

@op('setna_mask')
class _:
    def run(a, ins, mask): return a.setna(np.array(mask, dtype=bool).reshape(a.shape))
    def coq(mask): return '(OSetnaMask %s)' % cq_list(['true' if b else 'false' for b in mask])

@op('take_axis')
class _:
    def run(a, ins, idx, r, mode):
        if mode == 'label': return a.take_axis([py_label(x) for x in idx], axis=r)
        return a.take_axis(list(idx), axis=r, indexing='position')
    def coq(idx, r, mode):
        if mode == 'label': return '(OTakeAxisLabel %s %s)' % (cq_labs(idx), cq_axref(r))
        return '(OTakeAxisPos %s %s)' % (cq_list([cq_z(z) for z in idx]), cq_axref(r))

@op('compress_axis')
class _:
    def run(a, ins, mask, r): return a.compress_axis(np.array(mask, dtype=bool), axis=r)
    def coq(mask, r): return '(OCompressAxis %s %s)' % (cq_list(['true' if b else 'false' for b in mask]), cq_axref(r))

@op('interp')
class _:
    def run(a, ins, news, kind, r, left, right, issorted=None):
        kw = {}
        # 'edge': left=None / right=None passed explicitly = numpy.interp's own default, the value at the edge
        if left is not None: kw['left'] = None if left == 'edge' else left
        if right is not None: kw['right'] = None if right == 'edge' else right
        if issorted is not None: kw['issorted'] = issorted
        return a.interp_axis(labs_np(news, kind), axis=r, **kw)
    def coq(news, kind, r, left, right, issorted=None):
        if 'edge' in (left, right): raise Unsupported('explicit None fills: numpy.interp on the fibres is the reference (oracle)')
        c = lambda v: 'CNaN' if v is None else cq_cell(float(v))
        return '(OInterp %s %s %s %s %s)' % (cq_kind(kind), cq_labs(news), cq_axref(r), c(left), c(right))

@op('interp_like')
class _:
    def run(a, ins, others, left, right, as_axes):
        D = da(); kw = {}
        if left is not None: kw['left'] = left
        if right is not None: kw['right'] = right
        axes = D.Axes([D.Axis(labs_np(l, k), n) for n, k, l in others])
        if as_axes: return a.interp_like(axes, **kw)
        other = D.DimArray(np.zeros([len(l) for _, _, l in others]), axes=axes)
        return a.interp_like(other, **kw)
    def coq(others, left, right, as_axes):
        c = lambda v: 'CNaN' if v is None else cq_cell(float(v))
        return '(OInterpLike %s %s %s)' % (cq_list(['(%s, %s, %s)' % (cq_str(n), cq_kind(k), cq_labs(l)) for n, k, l in others]), c(left), c(right))

@op('flatten')
class _:
    def run(a, ins, refs, form, insert):
        kw = {} if insert is None else {'insert': insert}
        if form == 'args': return a.flatten(*refs, **kw)
        return a.flatten({'tuple': tuple, 'list': list, 'set': set}[form](refs), **kw)
    def coq(refs, form, insert):
        return '(OFlatten %s %s %s)' % (cq_list([cq_axref(r) for r in refs]), 'true' if form == 'set' else 'false', cq_opt(insert, cq_z))

@op('unflatten')
class _:
    def run(a, ins): return a.unflatten()
    def coq(): return 'OUnflatten'

@op('reshape')
class _:
    def run(a, ins, newdims, as_args): return a.reshape(*newdims) if as_args else a.reshape(list(newdims))
    def coq(newdims, as_args): return '(OReshape %s)' % cq_list([cq_str(d) for d in newdims])


@op('percentile')
class _:
    def run(a, ins, q, r):
        from dimarray.lib.stats import percentile
        return percentile(a, q, axis=tuple(r) if isinstance(r, list) else r)
    def coq(q, r):
        # Model/Transform.v qpercentile: linear interpolation between the order statistics, exact on rationals
        qs = q if isinstance(q, list) else [q]
        kk = 'i' if all(isinstance(x, int) for x in qs) else 'f'
        return '(OPercentile %s %s %s %s)' % (cq_list([cq_q(x) for x in qs]), 'false' if isinstance(q, list) else 'true', cq_kind(kk), cq_axarg(r))

@op('compare')
class _:
    def run(a, ins, o, v):
        import operator
        return {'==': operator.eq, '<': operator.lt, '>=': operator.ge, '!=': operator.ne}[o](a, v)
    def coq(o, v): raise Unsupported('comparisons are checked by the oracle only')

@op('neg')
class _:
    def run(a, ins): return -a
    def coq(): raise Unsupported('unary ops are checked by the oracle only')

# ---------------------------------------------------------------- in-place axis edits, queries, Dataset round trip (C05)
@op('rename_axis')
class _:
    def run(a, ins, r, n): a.axes[r].name = n; return a
    def coq(r, n): return '(ORenameAxis %s %s)' % (cq_axref(r), cq_str(n))

@op('set_label')
class _:
    def run(a, ins, r, i, v): a.axes[r][i] = v; return a
    def coq(r, i, v):
        k = 'i' if isinstance(v, int) else 'f' if isinstance(v, float) else 'U'
        return '(OSetLabel %s %s %s %s)' % (cq_axref(r), cq_z(i), cq_label(v), cq_kind(k))

@op('set_dims')
class _:
    # pairs: the same request written as a mapping {old: new} (names not mentioned stay); ns is the resulting list of names
    def run(a, ins, ns, pairs=None): a.dims = dict((o_, n_) for o_, n_ in pairs) if pairs is not None else tuple(ns); return a
    def coq(ns, pairs=None): return '(OSetDims %s)' % cq_list([cq_str(x) for x in ns])

@op('set_axis')
class _:
    def run(a, ins, r, labs, kind, name, inplace):
        if inplace: a.set_axis(labs_np(labs, kind), axis=r, name=name); return a
        return a.set_axis(labs_np(labs, kind), axis=r, name=name, inplace=False)
    def coq(r, labs, kind, name, inplace):
        return '(OSetAxis %s %s %s %s)' % (cq_axref(r), cq_kind('U' if kind == 'O' else kind), cq_labs(labs), cq_opt(name, cq_str))

@op('query')
class _:
    def run(a, ins, what):
        if what == 'monotonic': [ax.is_monotonic() for ax in a.axes]
        elif what == 'repr': repr(a); str(a)
        elif what == 'labels': a.labels
        elif what == 'size': [getattr(ax, 'size') for ax in a.axes]; a.shape
        elif what == 'copy': a = a.copy()
        return a
    def coq(what): return 'OIdentity'

@op('dataset_roundtrip')
class _:
    def run(a, ins, key):
        ds = da().Dataset(); ds[key] = a; return ds[key]
    def coq(key): return 'OIdentity'
