"""Narrow matchers for the open known findings listed in KNOWN_FINDINGS.txt.
matcher(case, implementation_result, oracle_message) -> bool"""
