"""Narrow matchers for the open known findings listed in KNOWN_FINDINGS.txt.
matcher(case, implementation_result, oracle_message) -> bool"""

def c04_pow_identity(case, res, msg):
    """F6: a ** b where only one operand defines a coordinate (or holds NaN) and the other is base 1 /
    exponent 0 gives 1.0 (NumPy's 1**nan == nan**0 == 1), not NaN"""
    o = case['ops'][0]
    return o[0] == 'binop' and o[1] == '**' and msg.startswith('pow-identity:')

def c05_axis_name_sibling(case, res, msg):
    """F30: a.axes[d].name = <the name of another dimension of the same array> is accepted (an Axis does not know
    its siblings), leaving an array with two dimensions of the same name"""
    import re
    m = re.match(r'after step (\d+) \(rename_axis\): duplicate dimension names (\[.*\])$', msg)
    if not m or 'ops' not in case: return False
    k = int(m.group(1)); o = case['ops'][k]
    import ast
    names = ast.literal_eval(m.group(2))
    return o[0] == 'rename_axis' and names.count(o[2]) >= 2
