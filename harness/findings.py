"""Narrow matchers for the open known findings listed in KNOWN_FINDINGS.txt.
matcher(case, implementation_result, oracle_message) -> bool"""

def c04_pow_identity(case, res, msg):
    """F6: a ** b where only one operand defines a coordinate (or holds NaN) and the other is base 1 /
    exponent 0 gives 1.0 (NumPy's 1**nan == nan**0 == 1), not NaN"""
    o = case['ops'][0]
    return o[0] == 'binop' and o[1] == '**' and msg.startswith('pow-identity:')
