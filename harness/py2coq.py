#!/venv/bin/python
"""translator stub (filled in with C02)"""
import sys
sys.exit(0)
