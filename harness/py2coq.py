#!/venv/bin/python
"""Fail-closed translator: Python (ast) -> Gallina over the dynamic embedding DA.PyRT.pv.

Reads the listed function definitions from /repo's *working tree* and (re)writes
coq/Gen/*.v.  Anything outside the accepted subset raises Unsupported and the
translator exits non-zero (the tie to the source is then broken, DESIGN 2.3/2.4).

Accepted: def with positional/default-constant parameters; Return, Raise, Assign (name or
tuple of names), AugAssign (+=, -=), If/elif/else with fall-through (join points), Pass,
docstrings; BoolOp and/or (short-circuit, value-returning), not, unary -, + - *,
comparisons < <= > >= == != is [not] None, in / not in, IfExp, constants, names, tuples,
v[const], v[a:b:c] with constant bounds, attributes .size .dtype.kind, np.<ufunc> as a
value, calls to functions of the same unit, to the NumPy vocabulary and to hand-modelled
callees.
"""
import ast, os, sys, re

VERIF = os.path.dirname(os.path.dirname(os.path.abspath(__file__)))
REPO = os.environ.get('VERIF_REPO', '/repo')

class Unsupported(Exception):
    pass

def fail(node, msg):
    raise Unsupported('%s at line %s: %s' % (msg, getattr(node, 'lineno', '?'), ast.dump(node)[:200]))

EXN = {'IndexError', 'ValueError', 'TypeError', 'KeyError', 'AssertionError', 'AttributeError'}
NP_FUNVALS = {'greater', 'greater_equal', 'less', 'less_equal'}
HAND = {  # hand-modelled callees: name -> (coq function, [(param, default_coq)])
    'locate_one': ('h_locate_one', [('values', None), ('val', None), ('issorted', 'PBool false'),
                                    ('tol', 'PNone'), ('side', 'PStr "left"')]),
}

def cq_str(s):
    return '"' + s.replace('"', '""') + '"'

def const(node, v):
    if v is None: return 'PNone'
    if v is True: return 'PBool true'
    if v is False: return 'PBool false'
    if isinstance(v, int): return 'PInt (%d)' % v
    if isinstance(v, str): return 'PStr ' + cq_str(v)
    fail(node, 'constant')

class Unit:
    """one translation unit = the functions of one output file"""
    def __init__(self, funcs):
        self.funcs = funcs            # name -> ast.FunctionDef
        self.counter = 0
        self.sigs = {n: self.signature(f) for n, f in funcs.items()}

    def fresh(self, base='t'):
        self.counter += 1
        return '%s%d' % (base, self.counter)

    def signature(self, f):
        a = f.args
        if a.vararg or a.kwarg or a.kwonlyargs or a.posonlyargs:
            fail(f, 'signature')
        names = [x.arg for x in a.args]
        defaults = [None] * (len(names) - len(a.defaults))
        for d in a.defaults:
            if not isinstance(d, ast.Constant): fail(d, 'non-constant default')
            defaults.append(const(d, d.value))
        return list(zip(names, defaults))

    # ------------------------------------------------------------ expressions : text of type res pv
    def E(self, e, env):
        if isinstance(e, ast.Constant):
            return 'Ok (%s)' % const(e, e.value)
        if isinstance(e, ast.Name):
            if e.id in env: return 'Ok v_%s' % e.id
            fail(e, 'unbound name')
        if isinstance(e, ast.Tuple):
            names, binds = [], ''
            for x in e.elts:
                t = self.fresh(); binds += 'let! %s := %s in ' % (t, self.E(x, env)); names.append(t)
            return '(%sOk (PTuple [%s]))' % (binds, '; '.join(names))
        if isinstance(e, ast.BoolOp):
            vals = e.values
            out = self.E(vals[-1], env)
            for x in reversed(vals[:-1]):
                t, b = self.fresh(), self.fresh('b')
                if isinstance(e.op, ast.And):
                    out = '(let! %s := %s in let! %s := truthy %s in if %s then %s else Ok %s)' % (t, self.E(x, env), b, t, b, out, t)
                else:
                    out = '(let! %s := %s in let! %s := truthy %s in if %s then Ok %s else %s)' % (t, self.E(x, env), b, t, b, t, out)
            return out
        if isinstance(e, ast.UnaryOp):
            t = self.fresh()
            if isinstance(e.op, ast.Not): return '(let! %s := %s in py_not %s)' % (t, self.E(e.operand, env), t)
            if isinstance(e.op, ast.USub):
                if isinstance(e.operand, ast.Constant) and isinstance(e.operand.value, int):
                    return 'Ok (PInt (%d))' % (-e.operand.value)
                return '(let! %s := %s in py_neg %s)' % (t, self.E(e.operand, env), t)
            fail(e, 'unary op')
        if isinstance(e, ast.BinOp):
            ops = {ast.Add: 'AAdd', ast.Sub: 'ASub', ast.Mult: 'AMul'}
            if type(e.op) not in ops: fail(e, 'binary op')
            a, b = self.fresh(), self.fresh()
            return '(let! %s := %s in let! %s := %s in py_arith %s %s %s)' % (a, self.E(e.left, env), b, self.E(e.right, env), ops[type(e.op)], a, b)
        if isinstance(e, ast.Compare):
            if len(e.ops) != 1: fail(e, 'chained comparison')
            o, r = e.ops[0], e.comparators[0]
            a = self.fresh()
            if isinstance(o, (ast.Is, ast.IsNot)):
                if not (isinstance(r, ast.Constant) and r.value is None): fail(e, 'is <non-None>')
                neg = 'negb ' if isinstance(o, ast.IsNot) else ''
                return '(let! %s := %s in Ok (PBool (%s(py_is_none %s))))' % (a, self.E(e.left, env), neg, a)
            b = self.fresh()
            if isinstance(o, (ast.In, ast.NotIn)):
                core = 'py_in %s %s' % (a, b)
                if isinstance(o, ast.NotIn):
                    c = self.fresh(); core = 'let! %s := py_in %s %s in py_not %s' % (c, a, b, c)
                return '(let! %s := %s in let! %s := %s in %s)' % (a, self.E(e.left, env), b, self.E(r, env), core)
            ops = {ast.Lt: 'CLt', ast.LtE: 'CLe', ast.Gt: 'CGt', ast.GtE: 'CGe', ast.Eq: 'CEq', ast.NotEq: 'CNe'}
            if type(o) not in ops: fail(e, 'comparison')
            return '(let! %s := %s in let! %s := %s in py_cmp %s %s %s)' % (a, self.E(e.left, env), b, self.E(r, env), ops[type(o)], a, b)
        if isinstance(e, ast.IfExp):
            t, b = self.fresh(), self.fresh('b')
            return '(let! %s := %s in let! %s := truthy %s in if %s then %s else %s)' % (t, self.E(e.test, env), b, t, b, self.E(e.body, env), self.E(e.orelse, env))
        if isinstance(e, ast.Attribute):
            # np.<ufunc> as a value
            if isinstance(e.value, ast.Name) and e.value.id == 'np' and e.attr in NP_FUNVALS:
                return 'Ok (PFun %s)' % cq_str(e.attr)
            path, base = [e.attr], e.value
            while isinstance(base, ast.Attribute):
                path.insert(0, base.attr); base = base.value
            name = '.'.join(path)
            if name not in ('size', 'dtype.kind', 'dtype', 'kind'): fail(e, 'attribute')
            if name == 'dtype': name = 'dtype.kind'      # a dtype is represented by its kind
            t = self.fresh()
            return '(let! %s := %s in py_attr %s %s)' % (t, self.E(base, env), t, cq_str(name))
        if isinstance(e, ast.Subscript):
            t = self.fresh()
            s = e.slice
            def cz(x):
                if x is None: return 'None'
                if isinstance(x, ast.Constant) and isinstance(x.value, int): return '(Some (%d)%%Z)' % x.value
                if isinstance(x, ast.UnaryOp) and isinstance(x.op, ast.USub) and isinstance(x.operand, ast.Constant):
                    return '(Some (%d)%%Z)' % (-x.operand.value)
                fail(e, 'non-constant subscript')
            if isinstance(s, ast.Slice):
                return '(let! %s := %s in py_getslice %s %s %s %s)' % (t, self.E(e.value, env), t, cz(s.lower), cz(s.upper), cz(s.step))
            c = cz(s)
            return '(let! %s := %s in py_getitem %s %s)' % (t, self.E(e.value, env), t, c[6:-1])
        if isinstance(e, ast.Call):
            return self.call(e, env)
        fail(e, 'expression')

    def bind_args(self, node, sig, args, kwargs, env):
        """resolve positional + keyword arguments against a signature; returns (binds, names)"""
        vals = {}
        if len(args) > len(sig): fail(node, 'too many arguments')
        for (p, _), a in zip(sig, args): vals[p] = a
        for k in kwargs:
            if k.arg is None or k.arg not in [p for p, _ in sig] or k.arg in vals: fail(node, 'keyword argument')
            vals[k.arg] = k.value
        binds, names = '', []
        for p, d in sig:
            if p in vals:
                t = self.fresh(); binds += 'let! %s := %s in ' % (t, self.E(vals[p], env)); names.append(t)
            elif d is not None:
                names.append('(%s)' % d)
            else:
                fail(node, 'missing argument ' + p)
        return binds, names

    def call(self, e, env):
        f = e.func
        if isinstance(f, ast.Name):
            if f.id in self.funcs:
                binds, names = self.bind_args(e, self.sigs[f.id], e.args, e.keywords, env)
                return '(%sg_%s %s)' % (binds, f.id, ' '.join(names))
            if f.id in HAND:
                cf, sig = HAND[f.id]
                binds, names = self.bind_args(e, sig, e.args, e.keywords, env)
                return '(%s%s %s)' % (binds, cf, ' '.join(names))
            if f.id in env:   # calling a function-valued parameter
                if e.keywords: fail(e, 'keywords on dynamic call')
                binds, names = '', []
                for a in e.args:
                    t = self.fresh(); binds += 'let! %s := %s in ' % (t, self.E(a, env)); names.append(t)
                return '(%spy_call v_%s [%s])' % (binds, f.id, '; '.join(names))
            fail(e, 'unknown callee')
        if isinstance(f, ast.Attribute) and isinstance(f.value, ast.Name) and f.value.id == 'np':
            if f.attr == 'searchsorted':
                binds, names = self.bind_args(e, [('a', None), ('v', None), ('side', 'PStr "left"')], e.args, e.keywords, env)
                return '(%snp_searchsorted %s)' % (binds, ' '.join(names))
            if f.attr == 'asarray':
                kw = {k.arg: k.value for k in e.keywords}
                if len(e.args) == 1 and not kw:
                    t = self.fresh(); return '(let! %s := %s in np_asarray %s)' % (t, self.E(e.args[0], env), t)
                if len(e.args) == 1 and set(kw) == {'dtype'}:
                    d = kw['dtype']
                    if isinstance(d, ast.Name) and d.id in ('float', 'object', 'int'):
                        k = {'float': 'KF', 'object': 'KO', 'int': 'KI'}[d.id]
                    elif isinstance(d, ast.Constant) and d.value in ('U', 'S', 'O', 'f', 'i'):
                        k = 'K' + d.value.upper()
                    else: fail(e, 'dtype')
                    t = self.fresh(); return '(let! %s := %s in np_asarray_dtype %s %s)' % (t, self.E(e.args[0], env), t, k)
                fail(e, 'np.asarray form')
            if f.attr == 'all' and len(e.args) == 1 and not e.keywords:
                t = self.fresh(); return '(let! %s := %s in np_all %s)' % (t, self.E(e.args[0], env), t)
        fail(e, 'call')

    # ------------------------------------------------------------ statements
    def assigned(self, stmts):
        out = []
        for s in stmts:
            if isinstance(s, ast.Assign):
                for t in s.targets:
                    for n in (t.elts if isinstance(t, ast.Tuple) else [t]):
                        if isinstance(n, ast.Name) and n.id not in out: out.append(n.id)
            elif isinstance(s, ast.AugAssign) and isinstance(s.target, ast.Name):
                if s.target.id not in out: out.append(s.target.id)
            elif isinstance(s, ast.If):
                for n in self.assigned(s.body) + self.assigned(s.orelse):
                    if n not in out: out.append(n)
        return out

    def S(self, stmts, env, k):
        """stmts followed by continuation text k (a function of env -> text)"""
        if not stmts:
            return k(env)
        s, rest = stmts[0], stmts[1:]
        if isinstance(s, ast.Expr) and isinstance(s.value, ast.Constant) and isinstance(s.value.value, str):
            return self.S(rest, env, k)
        if isinstance(s, ast.Pass):
            return self.S(rest, env, k)
        if isinstance(s, ast.Return):
            return self.E(s.value, env) if s.value is not None else 'Ok PNone'
        if isinstance(s, ast.Raise):
            exc = s.exc
            name = exc.func.id if isinstance(exc, ast.Call) and isinstance(exc.func, ast.Name) else (exc.id if isinstance(exc, ast.Name) else None)
            if name not in EXN: fail(s, 'raise')
            return 'Err %s' % name
        if isinstance(s, ast.Assign):
            if len(s.targets) != 1: fail(s, 'multiple targets')
            t = s.targets[0]
            if isinstance(t, ast.Name):
                env2 = env | {t.id}
                return '(let! v_%s := %s in\n %s)' % (t.id, self.E(s.value, env), self.S(rest, env2, k))
            if isinstance(t, ast.Tuple) and all(isinstance(n, ast.Name) for n in t.elts) \
                    and isinstance(s.value, ast.Tuple) and len(s.value.elts) == len(t.elts):
                tmps = [self.fresh() for _ in t.elts]
                binds = ''.join('let! %s := %s in ' % (tm, self.E(v, env)) for tm, v in zip(tmps, s.value.elts))
                binds += ''.join('let v_%s := %s in ' % (n.id, tm) for n, tm in zip(t.elts, tmps))
                env2 = env | {n.id for n in t.elts}
                return '(%s\n %s)' % (binds, self.S(rest, env2, k))
            fail(s, 'assignment target')
        if isinstance(s, ast.AugAssign):
            if not isinstance(s.target, ast.Name) or s.target.id not in env: fail(s, 'augassign target')
            ops = {ast.Add: 'AAdd', ast.Sub: 'ASub'}
            if type(s.op) not in ops: fail(s, 'augassign op')
            t = self.fresh()
            return '(let! %s := %s in let! v_%s := py_arith %s v_%s %s in\n %s)' % (
                t, self.E(s.value, env), s.target.id, ops[type(s.op)], s.target.id, t, self.S(rest, env, k))
        if isinstance(s, ast.If):
            vs = self.assigned(s.body) + [n for n in self.assigned(s.orelse) if n not in self.assigned(s.body)]
            t, b, j = self.fresh(), self.fresh('b'), self.fresh('join')
            env_after = env | set(vs)
            def kk(envb):
                return '%s %s' % (j, ' '.join(('v_%s' % n) if n in envb else 'PNone' for n in vs)) if vs else '%s tt' % j
            params = ' '.join('(v_%s : pv)' % n for n in vs) if vs else '(_ : unit)'
            return ('(let %s := fun %s =>\n %s in\n let! %s := %s in let! %s := truthy %s in\n if %s then %s\n else %s)' % (
                j, params, self.S(rest, env_after, k), t, self.E(s.test, env), b, t, b,
                self.S(s.body, env, kk), self.S(s.orelse, env, kk)))
        fail(s, 'statement')

    def function(self, name):
        f = self.funcs[name]
        sig = self.sigs[name]
        env = {p for p, _ in sig}
        body = self.S(f.body, env, lambda env: 'Ok PNone')
        params = ' '.join('(v_%s : pv)' % p for p, _ in sig)
        return 'Definition g_%s %s : res pv :=\n %s.\n' % (name, params, body)

    def order(self):
        """callees first"""
        deps = {n: {c.func.id for c in ast.walk(f) if isinstance(c, ast.Call) and isinstance(c.func, ast.Name) and c.func.id in self.funcs}
                for n, f in self.funcs.items()}
        out = []
        def visit(n, stack=()):
            if n in out: return
            if n in stack: fail(self.funcs[n], 'recursion')
            for d in sorted(deps[n]): visit(d, stack + (n,))
            out.append(n)
        for n in self.funcs: visit(n)
        return out

# ---------------------------------------------------------------- attribute-routing methods (C16)
# The three methods of GetSetDelAttrMixin depend on `name` only through a few predicates and end in one
# of a few effects.  Predicates become boolean parameters, effects become returned tags; any other
# construct is refused.
ROUTE_PREDICATES = {
    "hasattr(self.__class__, name)": 'P_member',
    "name.startswith('_')": 'P_private',
    "name in self.__metadata_exclude__": 'P_exclude',
    "name in self.__metadata_include__": 'P_include',
    "hasattr(type(self), 'dims')": 'P_hasdims',
    "hasattr(type(self), 'axes')": 'P_hasaxes',
    "name in self.dims": 'P_isdim',
    "name in self.attrs.keys()": 'P_inattrs',
}
ROUTE_PARAMS = ['P_member', 'P_private', 'P_exclude', 'P_include', 'P_hasdims', 'P_hasaxes', 'P_isdim', 'P_inattrs']
ROUTE_EFFECTS = {
    "return object.__getattribute__(self, name)": 'class_member',
    "return self.axes[name].values": 'axis_values',
    "return self.attrs[name]": 'attrs_item',
    "object.__setattr__(self, name, value)": 'object_setattr',
    "self.axes[name][()] = value": 'axis_setvalues',
    "self.attrs[name] = value": 'attrs_setitem',
    "del self.attrs[name]": 'attrs_delitem',
    "return object.__delattr__(self, name)": 'object_delattr',
}

class RouteRewriter(ast.NodeTransformer):
    def visit_Compare(self, node):
        txt = ast.unparse(node)
        if txt in ROUTE_PREDICATES: return ast.copy_location(ast.Name(id=ROUTE_PREDICATES[txt], ctx=ast.Load()), node)
        if ' not in ' in txt and txt.replace(' not in ', ' in ', 1) in ROUTE_PREDICATES:
            return ast.copy_location(ast.UnaryOp(op=ast.Not(), operand=ast.Name(id=ROUTE_PREDICATES[txt.replace(' not in ', ' in ', 1)], ctx=ast.Load())), node)
        return self.generic_visit(node)
    def visit_Call(self, node):
        txt = ast.unparse(node)
        if txt in ROUTE_PREDICATES: return ast.copy_location(ast.Name(id=ROUTE_PREDICATES[txt], ctx=ast.Load()), node)
        return self.generic_visit(node)

def rewrite_route_method(f):
    """FunctionDef of __getattr__/__setattr__/__delattr__ -> FunctionDef over the predicate parameters"""
    def stmts(body, terminal):
        out = []
        for k, st in enumerate(body):
            txt = ast.unparse(st)
            if txt in ROUTE_EFFECTS:
                if not txt.startswith('return') and not (terminal and k == len(body) - 1):
                    fail(st, 'effect statement is not the last statement of its path')
                out.append(ast.copy_location(ast.Return(value=ast.Constant(value=ROUTE_EFFECTS[txt])), st))
            elif isinstance(st, ast.If):
                new = ast.If(test=RouteRewriter().visit(st.test), body=stmts(st.body, terminal and k == len(body) - 1),
                             orelse=stmts(st.orelse, terminal and k == len(body) - 1))
                out.append(ast.copy_location(new, st))
            elif isinstance(st, (ast.Pass, ast.Raise)) or (isinstance(st, ast.Expr) and isinstance(st.value, ast.Constant)):
                out.append(st)
            else:
                fail(st, 'statement outside the attribute-routing subset')
        return out
    body = stmts(f.body, True)
    args = ast.arguments(posonlyargs=[], args=[ast.arg(arg=p) for p in ROUTE_PARAMS], kwonlyargs=[], kw_defaults=[], defaults=[])
    g = ast.FunctionDef(name=f.name, args=args, body=body, decorator_list=[], returns=None, type_comment=None, type_params=[])
    ast.fix_missing_locations(g)
    # nothing but the predicate parameters may remain (the message of a raise is not evaluated)
    inside_raise = set()
    for n in ast.walk(g):
        if isinstance(n, ast.Raise):
            for m in ast.walk(n): inside_raise.add(id(m))
    for n in ast.walk(g):
        if id(n) in inside_raise: continue
        if isinstance(n, ast.Name) and n.id not in ROUTE_PARAMS: fail(n, 'free name in routing method')
        if isinstance(n, (ast.Attribute, ast.Subscript, ast.Call)): fail(n, 'unresolved expression in routing method')
    return g

def load_functions(path, names, cls=None):
    tree = ast.parse(open(path).read())
    body = tree.body
    if cls:
        body = [n for n in tree.body if isinstance(n, ast.ClassDef) and n.name == cls]
        if len(body) != 1: raise Unsupported('class %s not found in %s' % (cls, path))
        body = body[0].body
    found = {n.name: n for n in body if isinstance(n, ast.FunctionDef)}
    missing = [n for n in names if n not in found]
    if missing: raise Unsupported('functions not found in %s: %s' % (path, missing))
    return {n: found[n] for n in names}

UNITS = [
    ('locate_slice', 'dimarray/core/indexing.py', None,
     ['is_numeric', '_is_ordered', 'is_increasing', 'is_increasing_equal', 'is_decreasing',
      'is_decreasing_equal', 'is_monotonic', 'is_monotonic_equal', '_locate_slice_strict', 'locate_slice']),
    ('cast', 'dimarray/core/indexing.py', None, ['_maybe_cast_type']),
    ('cast_kind', 'dimarray/core/axes.py', None, ['_get_cast_kind']),
    ('attrs', 'dimarray/core/bases.py', 'GetSetDelAttrMixin', ['__getattr__', '__setattr__', '__delattr__']),
]

HEADER = '''(* GENERATED by harness/py2coq.py from %s -- do not edit *)
From DA Require Import Prelude NDArray Array PyRT.
Open Scope string_scope.
'''

# ---------------------------------------------------------------- the monotonicity cache of Axis (C05)
# For each method of core/axes.py Axis that reads or writes `_monotonic`, the value of the cache of the axis the
# method leaves behind (self for in-place methods, the returned Axis for __getitem__ / take) as an expression
# over: c = the cache before (option bool), t = is_monotonic(values) of the axis at that point, sl = the index
# is a slice.  Straight-line code and if / else only; anything else fails closed.
CACHE_METHODS = ['__init__', 'values', 'sort', '__getitem__', '__setitem__', 'take', 'is_monotonic', 'copy']

def cache_effect(f, setter=False):
    def cond(e):
        if isinstance(e, ast.BoolOp):
            parts = [cond(v) for v in e.values]
            if any(x is None for x in parts):
                if any(isinstance(n, ast.Attribute) and n.attr == '_monotonic' for n in ast.walk(e)): fail(e, 'condition mixing _monotonic with something the cache model does not see')
                return None
            op = ' && ' if isinstance(e.op, ast.And) else ' || '
            return '(' + op.join(parts) + ')'
        if isinstance(e, ast.UnaryOp) and isinstance(e.op, ast.Not): return '(negb %s)' % cond(e.operand)
        if isinstance(e, ast.Attribute) and e.attr == '_monotonic' and isinstance(e.value, ast.Name) and e.value.id == 'self':
            return '(opt_truthy c)'
        if isinstance(e, ast.Compare) and len(e.ops) == 1:
            l, r = e.left, e.comparators[0]
            if isinstance(l, ast.Attribute) and l.attr == '_monotonic' and isinstance(r, ast.Constant) and r.value is None:
                if isinstance(e.ops[0], ast.Is): return '(opt_is_none c)'
                if isinstance(e.ops[0], ast.IsNot): return '(negb (opt_is_none c))'
            # type(item) is slice
            if isinstance(e.ops[0], ast.Is) and isinstance(l, ast.Call) and getattr(l.func, 'id', None) == 'type' and isinstance(r, ast.Name) and r.id == 'slice':
                return 'sl'
        return None        # a condition that does not concern the cache
    def rhs(e):
        if isinstance(e, ast.Constant) and e.value is None: return 'None'
        if isinstance(e, ast.Constant) and e.value is True: return '(Some true)'
        if isinstance(e, ast.Constant) and e.value is False: return '(Some false)'
        if isinstance(e, ast.Attribute) and e.attr == '_monotonic' and isinstance(e.value, ast.Name) and e.value.id == 'self': return 'c'
        if isinstance(e, ast.Call) and getattr(e.func, 'id', None) == 'is_monotonic': return '(Some t)'
        fail(e, 'value assigned to _monotonic')
    def mentions(node):
        return any(isinstance(n, ast.Attribute) and n.attr == '_monotonic' for n in ast.walk(node))
    state = {'self': 'c'}            # cache expression per axis variable
    result = ['self']
    def run(body, st):
        for stmt in body:
            if isinstance(stmt, ast.Assign) and len(stmt.targets) == 1:
                tg = stmt.targets[0]
                if isinstance(tg, ast.Attribute) and tg.attr == '_monotonic' and isinstance(tg.value, ast.Name):
                    st[tg.value.id] = rhs(stmt.value); continue
                if isinstance(tg, ast.Name) and isinstance(stmt.value, ast.Call) and getattr(stmt.value.func, 'id', None) == 'Axis':
                    st[tg.id] = 'None'; continue          # a new Axis object: __init__ leaves the cache empty
                if mentions(stmt): fail(stmt, 'statement using _monotonic')
                continue
            if isinstance(stmt, ast.If):
                c_ = cond(stmt.test)
                if c_ is None:
                    if mentions(stmt.test): fail(stmt, 'condition on _monotonic')
                    a = dict(st); b = dict(st); ra = run(stmt.body, a); rb = run(stmt.orelse, b)
                    if a != b or ra or rb:
                        # branches that return early must leave the same cache picture, or not concern the cache at all
                        if any(mentions(x) for x in stmt.body + stmt.orelse): fail(stmt, 'cache changed under a condition the model does not see')
                    continue
                a = dict(st); b = dict(st); run(stmt.body, a); run(stmt.orelse, b)
                for k in set(a) | set(b):
                    va, vb = a.get(k, st.get(k)), b.get(k, st.get(k))
                    if va is None or vb is None: fail(stmt, 'axis variable defined in one branch only')
                    st[k] = va if va == vb else '(if %s then %s else %s)' % (c_, va, vb)
                continue
            if isinstance(stmt, ast.Return):
                v = stmt.value
                if isinstance(v, ast.Name) and v.id in st: result[0] = v.id
                elif isinstance(v, ast.Call) and getattr(v.func, 'id', None) == 'Axis': st['__ret'] = 'None'; result[0] = '__ret'
                elif isinstance(v, ast.Call) and isinstance(v.func, ast.Attribute) and v.func.attr == 'deepcopy': st['__ret'] = 'c'; result[0] = '__ret'
                elif isinstance(v, ast.Attribute) and v.attr == '_monotonic': pass      # is_monotonic returns the cache; the axis is self
                elif mentions(stmt): fail(stmt, 'return using _monotonic')
                return True
            if isinstance(stmt, (ast.Expr, ast.Pass, ast.Raise, ast.AugAssign)):
                if mentions(stmt): fail(stmt, 'statement using _monotonic')
                continue
            if mentions(stmt): fail(stmt, 'statement using _monotonic')
        return False
    run(f.body, state)
    return state[result[0]]

def translate_axis_cache():
    path = os.path.join(REPO, 'dimarray/core/axes.py')
    tree = ast.parse(open(path).read())
    cls = [n for n in tree.body if isinstance(n, ast.ClassDef) and n.name == 'Axis']
    if len(cls) != 1: raise Unsupported('class Axis not found')
    methods = {}
    for n in cls[0].body:
        if isinstance(n, ast.FunctionDef):
            if n.name == 'values':
                if any(isinstance(d, ast.Attribute) and d.attr == 'setter' for d in n.decorator_list): methods['values_setter'] = n
            elif n.name in CACHE_METHODS: methods[n.name] = n
    want = ['__init__', 'values_setter', 'sort', '__getitem__', '__setitem__', 'take', 'is_monotonic', 'copy']
    missing = [m for m in want if m not in methods]
    if missing: raise Unsupported('Axis methods not found: %s' % missing)
    # every other method of Axis must leave _monotonic alone
    for n in cls[0].body:
        if isinstance(n, ast.FunctionDef) and n not in methods.values():
            for m in ast.walk(n):
                if isinstance(m, ast.Attribute) and m.attr == '_monotonic' and isinstance(m.ctx, ast.Store):
                    raise Unsupported('Axis.%s writes _monotonic: not in the cache model' % n.name)
    out = ['(* GENERATED by harness/py2coq.py from dimarray/core/axes.py (class Axis) -- do not edit *)',
           'From Coq Require Import Bool.',
           'Definition opt_truthy (c : option bool) : bool := match c with Some true => true | _ => false end.',
           'Definition opt_is_none (c : option bool) : bool := match c with None => true | _ => false end.',
           '(* the cache of the axis a method leaves behind: c = cache before, t = is_monotonic(values), sl = the index is a slice *)']
    names = {'__init__': 'init', 'values_setter': 'values_setter', 'sort': 'sort', '__getitem__': 'getitem', '__setitem__': 'setitem', 'take': 'take', 'is_monotonic': 'is_monotonic', 'copy': 'copy'}
    for m in want:
        e = cache_effect(methods[m])
        out.append('Definition g_cache_%s (c : option bool) (t : bool) (sl : bool) : option bool := %s.' % (names[m], e))
    return '\n'.join(out) + '\n'

def main():
    ok = True
    os.makedirs(os.path.join(VERIF, 'coq', 'Gen'), exist_ok=True)
    for out, src, cls, names in UNITS:
        target = os.path.join(VERIF, 'coq', 'Gen', out + '.v')
        try:
            funcs = load_functions(os.path.join(REPO, src), names, cls)
            if out == 'attrs':
                funcs = {n: rewrite_route_method(f) for n, f in funcs.items()}
            u = Unit(funcs)
            text = HEADER % src + '\n'.join(u.function(n) for n in u.order())
        except Unsupported as e:
            sys.stderr.write('py2coq: %s: UNSUPPORTED: %s\n' % (src, e))
            ok = False
            text = HEADER % src + '(* translation failed: %s *)\nDefinition translation_failed := tt.\n' % str(e).replace('*)', '* )')
        old = open(target).read() if os.path.exists(target) else None
        if old != text:
            with open(target, 'w') as f: f.write(text)
    target = os.path.join(VERIF, 'coq', 'Gen', 'axis_cache.v')
    try:
        text = translate_axis_cache()
    except Unsupported as e:
        sys.stderr.write('py2coq: axis_cache: UNSUPPORTED: %s\n' % e)
        ok = False
        text = '(* translation failed: %s *)\nDefinition translation_failed := tt.\n' % str(e).replace('*)', '* )')
    old = open(target).read() if os.path.exists(target) else None
    if old != text:
        with open(target, 'w') as f: f.write(text)
    sys.exit(0 if ok else 1)

if __name__ == '__main__':
    main()
