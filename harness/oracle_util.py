"""Helpers for the property oracles: brute-force access by label coordinates on the
observable JSON (arr_json) of implementation results."""
import itertools, math

def hl(l):
    """hashable label"""
    return tuple(hl(x) for x in l) if isinstance(l, list) else l

def obs_dims(o): return [a['name'] for a in o['axes']]
def obs_labels(o): return [[hl(l) for l in a['labels']] for a in o['axes']]

def cells(o):
    """dict: tuple of labels (in the array's own dimension order) -> cell"""
    labs = obs_labels(o)
    out = {}
    for k, c in enumerate(itertools.product(*labs)) if labs else [(0, ())]:
        out[c] = o['flat'][k]
    return out

def cell_eq(a, b):
    if isinstance(a, dict) or isinstance(b, dict):
        return a == b
    if isinstance(a, bool) or isinstance(b, bool):
        return isinstance(a, bool) and isinstance(b, bool) and a == b
    return a == b

def lab_eq(a, b):
    return hl(a) == hl(b)

def labs_eq(x, y):
    return len(x) == len(y) and all(lab_eq(a, b) for a, b in zip(x, y))

def has_dup(labels):
    return len(set(hl(l) for l in labels)) != len(labels)

def meta_eq(a, b):
    return a == b
