#!/bin/bash
# run every registered quick (or $1=thorough) check and validate the evidence files
cd "$(dirname "$0")"
tier=${1:-quick}
ids=$(/venv/bin/python -c "import json; print(' '.join(c['property_id'] for c in json.load(open('MANIFEST.json'))['checks']))")
rc=0
for id in $ids; do
  out=$(./check $id --tier $tier 2>&1); st=$?
  echo "$out" | grep -E "^(VIOLATION|KNOWN-FINDING|$id tier)" || { echo "CRASH $id (exit $st):"; echo "$out" | tail -5; }
done
python3-vt - <<PY
import json, jsonschema, sys
m = json.load(open('/verif/MANIFEST.json'))
jsonschema.validate(m, json.load(open('/root/.vp/MANIFEST.schema.json')))
es = json.load(open('/root/.vp/EVIDENCE.schema.json'))
for c in m['checks']:
    e = json.load(open(c['evidence_file']))
    jsonschema.validate(e, es)
    cv = e['coverage']
    assert cv['obligations'] == cv['discharged'] >= 1, (c['property_id'], cv['obligations'], cv['discharged'])
    assert e.get('violations', 0) == 0, c['property_id']
print('evidence ok for', len(m['checks']), 'checks')
PY
